package main

import (
	"fmt"
	"go/token"
	"go/types"

	"golang.org/x/tools/go/ssa"
)

// Model of what gob.go uses from reflect and hash/fnv (C14, the types hash).
//
// reflect.TypeOf(v) is the identity of v's dynamic type (the interface tag); PkgPath()/String() are functions of
// that identity. A hash.Hash64 is an object with a ghost state G|hst: fnv.New64() starts it at the constant hinit,
// Write(p) maps it to hw(state, bytes(p)), Sum64() reads hsum(state). All three are uninterpreted: nothing about
// FNV is assumed except that it is a deterministic function of the bytes written since New64.
// xorfold(m) is the XOR over the keys of a map[reflect.Type]bool of typefp(key), typefp being exactly the value
// GobRegister feeds into the hash for a type (defined by an axiom over the same uninterpreted functions).

const hstName = "G|hst"

var ifaceModelWrites = map[string][]string{}

func rtypeVal(st *State, tagTerm string) Val {
	e := st.e
	rt := e.tagByName("*reflect.rtype", nil)
	return Val{C: []string{ite(eq(tagTerm, "0"), "0", rt), tagTerm}}
}

func init() {
	models["reflect.TypeOf"] = func(st *State, fr *Frame, fn *ssa.Function, a []Val, pos token.Pos) (*Val, bool) {
		st.e.assumeUsed("reflect (assumed): TypeOf(v) is the identity of v's dynamic type; PkgPath()/String() of a reflect.Type are functions of that identity, the same in every process")
		return rv(rtypeVal(st, a[0].C[0]))
	}
	models["hash/fnv.New64"] = func(st *State, fr *Frame, fn *ssa.Function, a []Val, pos token.Pos) (*Val, bool) {
		e := st.e
		e.assumeUsed("hash/fnv (assumed): Sum64 of a hasher is a deterministic function of the byte strings written to it since New64 (uninterpreted hinit/hw/hsum)")
		r := st.newRef("fnv")
		arr := st.arr(hstName, "(Array Int Int)")
		st.setArr(hstName, "(Array Int Int)", store(arr, r, "hinit"))
		st.written[hstName] = true
		return rv(Val{C: []string{e.tagByName("*fnv.sum64", nil), r}})
	}
	models["encoding/gob.Register"] = func(st *State, fr *Frame, fn *ssa.Function, a []Val, pos token.Pos) (*Val, bool) {
		st.e.assumeUsed("encoding/gob.Register: no effect on cache state (its own registry is outside the model; it panics on conflicting names)")
		return nil, true
	}
	ifaceModels["reflect.Type.PkgPath"] = func(st *State, fr *Frame, call *ssa.CallCommon, recv Val, args []Val, pos token.Pos) (*Val, bool) {
		return rv(Val{C: []string{fmt.Sprintf("(rt_pkgpath %s)", recv.C[1])}})
	}
	ifaceModels["reflect.Type.String"] = func(st *State, fr *Frame, call *ssa.CallCommon, recv Val, args []Val, pos token.Pos) (*Val, bool) {
		return rv(Val{C: []string{fmt.Sprintf("(rt_string %s)", recv.C[1])}})
	}
	ifaceModels["hash.Hash64.Write"] = func(st *State, fr *Frame, call *ssa.CallCommon, recv Val, args []Val, pos token.Pos) (*Val, bool) {
		arr := st.arr(hstName, "(Array Int Int)")
		b := st.bytesOf(args[0])
		st.setArr(hstName, "(Array Int Int)", store(arr, recv.C[1], fmt.Sprintf("(hw %s %s)", sel(arr, recv.C[1]), b)))
		st.written[hstName] = true
		return rv(Val{C: []string{args[0].C[2], "0", "0"}})
	}
	ifaceModelWrites["hash.Hash64.Write"] = []string{hstName}
	ifaceModels["hash.Hash64.Sum64"] = func(st *State, fr *Frame, call *ssa.CallCommon, recv Val, args []Val, pos token.Pos) (*Val, bool) {
		arr := st.arr(hstName, "(Array Int Int)")
		r := fmt.Sprintf("(hsum %s)", sel(arr, recv.C[1]))
		st.assume(fmt.Sprintf("(and (<= 0 %s) (<= %s 18446744073709551615))", r, r))
		return rv(Val{C: []string{r}})
	}
	// spec functions
	specFuncs["hst"] = func(sc *SpecCtx, x *SExpr) Val { // hst(h): ghost state of hasher h (a hash.Hash64 value)
		h := sc.eval(x.Args[0])
		arr := sc.st.arrIn(sc.cur, hstName, "(Array Int Int)")
		return Val{T: tInt, C: []string{sel(arr, h.C[1])}}
	}
	specFuncs["rth"] = func(sc *SpecCtx, x *SExpr) Val { // rth(state, t): hasher state after recursiveTypeHash(t, h, {}) started in state
		s, t := sc.eval(x.Args[0]), sc.eval(x.Args[1])
		return Val{T: tInt, C: []string{fmt.Sprintf("(rth %s %s)", s.C[0], t.C[1])}}
	}
	specFuncs["xorfold"] = func(sc *SpecCtx, x *SExpr) Val { // xorfold(m): XOR of typefp(t) over the keys t of m
		m := sc.eval(x.Args[0])
		mt, ok := m.T.Underlying().(*types.Map)
		if !ok {
			sc.fail("xorfold: not a map")
		}
		dom, _, _, _ := sc.st.e.mapNames(mt)
		d := sc.st.arrIn(sc.cur, dom, "(Array Int (Array Int Bool))")
		return Val{T: tUint64, C: []string{ite(eq(m.C[0], "0"), "0", fmt.Sprintf("(xorfold %s)", sel(d, m.C[0])))}}
	}
	specFuncs["ghost"] = func(sc *SpecCtx, x *SExpr) Val { // ghost(name, i): the ghost array `name` (updated by "loop n ghost") at index i
		if x.Args[0].Op != "ident" {
			sc.fail("ghost: first argument is the name of a ghost array")
		}
		i := sc.eval(x.Args[1])
		arr := sc.st.arrIn(sc.cur, "G|u|"+x.Args[0].Name, "(Array Int Int)")
		return Val{T: tInt, C: []string{sel(arr, i.C[0])}}
	}
	specFuncs["keysKept"] = func(sc *SpecCtx, x *SExpr) Val { // keysKept(m): map m has exactly the keys and values it had in the old state
		m := sc.eval(x.Args[0])
		mt, ok := m.T.Underlying().(*types.Map)
		if !ok {
			sc.fail("keysKept: not a map")
		}
		dom, ln, vals, vcomps := sc.st.e.mapNames(mt)
		now := sc.st.arrIn(sc.cur, dom, "(Array Int (Array Int Bool))")
		old := sc.st.arrIn(sc.old, dom, "(Array Int (Array Int Bool))")
		cs := []string{eq(sel(now, m.C[0]), sel(old, m.C[0]))}
		cs = append(cs, eq(sel(sc.st.arrIn(sc.cur, ln, "(Array Int Int)"), m.C[0]), sel(sc.st.arrIn(sc.old, ln, "(Array Int Int)"), m.C[0])))
		for i, nm := range vals {
			srt := arr2Sort(vcomps[i].Sort)
			cs = append(cs, eq(sel(sc.st.arrIn(sc.cur, nm, srt), m.C[0]), sel(sc.st.arrIn(sc.old, nm, srt), m.C[0])))
		}
		return mkBool(and(cs...))
	}
	specFuncs["typefp"] = func(sc *SpecCtx, x *SExpr) Val { // typefp(t): the fingerprint GobRegister computes for reflect.Type t
		t := sc.eval(x.Args[0])
		return Val{T: tUint64, C: []string{fmt.Sprintf("(typefp (pair %s %s))", t.C[0], t.C[1])}}
	}
	specFuncs["typeOf"] = func(sc *SpecCtx, x *SExpr) Val { // typeOf(v): reflect.TypeOf(v)
		v := sc.eval(x.Args[0])
		r := rtypeVal(sc.st, v.C[0])
		if t := sc.st.e.typeByString("reflect.Type"); t != nil {
			r.T = t
		} else {
			r.T = types.NewInterfaceType(nil, nil)
		}
		return r
	}
}
