package main

import (
	"bytes"
	"encoding/json"
	"fmt"
	"os"
	"os/exec"
	"path/filepath"
	"regexp"
	"strings"
	"text/template"
)

// ReplaySpec is declared in a contract block: "replay <driver> name=expr ...".
type ReplayTerm struct {
	Name string
	Term string
}

// parseModelValues reads the (get-value ...) answer that follows the model.
var valueRe = regexp.MustCompile(`\(\(\|?rv!([A-Za-z0-9_.]+)\|? `)

func parseGetValue(out string) map[string]string {
	// the answer is a list of pairs: ((term value) (term value) ...). We asked for named constants rv!<name>.
	res := map[string]string{}
	idx := strings.LastIndex(out, "((|rv!")
	if idx < 0 {
		idx = strings.LastIndex(out, "((rv!")
	}
	if idx < 0 {
		return res
	}
	s := out[idx+1:]
	// split top-level pairs
	depth := 0
	start := -1
	for i := 0; i < len(s); i++ {
		switch s[i] {
		case '(':
			if depth == 0 {
				start = i
			}
			depth++
		case ')':
			depth--
			if depth == 0 && start >= 0 {
				pair := strings.TrimSpace(s[start+1 : i])
				sp := strings.IndexAny(pair, " \n")
				if sp > 0 {
					name := strings.Trim(pair[:sp], "|")
					name = strings.TrimPrefix(name, "rv!")
					res[name] = normValue(strings.TrimSpace(pair[sp+1:]))
				}
				start = -1
			}
			if depth < 0 {
				return res
			}
		}
	}
	return res
}

func normValue(v string) string {
	v = strings.Join(strings.Fields(v), " ")
	// rationals: (/ a b) and (- (/ a b)) become Go float expressions
	if strings.HasPrefix(v, "(- (/ ") && strings.HasSuffix(v, "))") {
		return "-(" + normValue(v[3:len(v)-1]) + ")"
	}
	if strings.HasPrefix(v, "(/ ") && strings.HasSuffix(v, ")") {
		f := strings.Fields(v[3 : len(v)-1])
		if len(f) == 2 {
			return f[0] + "/" + f[1]
		}
	}
	if strings.HasPrefix(v, "(- ") && strings.HasSuffix(v, ")") {
		inner := strings.TrimSuffix(strings.TrimPrefix(v, "(- "), ")")
		if !strings.ContainsAny(inner, " (") {
			return "-" + inner
		}
	}
	return v
}

// tryReplay attempts to confirm a failing obligation on the real code.
// Returns "confirmed", "not-confirmed" or "none".
func tryReplay(repo, verif, prop string, ob *Obligation, rp map[string]interface{}) string {
	if ob.Replay == "" {
		rp["replay"] = "none: no replay driver declared for " + ob.Fn
		return "none"
	}
	if ob.Values == nil {
		ob.Values = map[string]string{}
	}
	tmplPath := filepath.Join(verif, "replay", ob.Replay+".go.tmpl")
	src, err := renderReplay(tmplPath, ob.Values, ob.Name)
	if err != nil {
		rp["replay"] = "none: " + err.Error()
		return "none"
	}
	rp["driver"] = ob.Replay
	rp["model_values"] = ob.Values
	rp["test_source"] = src
	out, failed, err := runOverlayTest(repo, src, strings.Contains(src, "//verif:race"))
	rp["test_output"] = trunc(out, 6000)
	if err != nil {
		rp["replay"] = "replay could not run: " + err.Error()
		return "none"
	}
	if failed && (strings.Contains(out, "VIOLATION-CONFIRMED") || strings.Contains(out, "DATA RACE") || strings.Contains(out, "concurrent map")) {
		rp["replay"] = "confirmed on the real code"
		return "confirmed"
	}
	rp["replay"] = "the solver's counterexample did not reproduce on the real code"
	return "not-confirmed"
}

func renderReplay(tmplPath string, values map[string]string, obName string) (string, error) {
	b, err := os.ReadFile(tmplPath)
	if err != nil {
		return "", err
	}
	funcs := template.FuncMap{
		"def": func(m map[string]string, k, d string) string {
			if v, ok := m[k]; ok && v != "" {
				return v
			}
			return d
		},
	}
	t, err := template.New("replay").Delims("<<", ">>").Funcs(funcs).Parse(string(b))
	if err != nil {
		return "", err
	}
	var buf bytes.Buffer
	data := map[string]interface{}{"V": values, "Obligation": obName}
	if err := t.Execute(&buf, data); err != nil {
		return "", err
	}
	return buf.String(), nil
}

// runOverlayTest injects an in-package test through -overlay (nothing is written to the repository).
func runOverlayTest(repo, src string, race bool) (string, bool, error) {
	dir, err := os.MkdirTemp("", "govc-replay-")
	if err != nil {
		return "", false, err
	}
	defer os.RemoveAll(dir)
	testFile := filepath.Join(dir, "zz_verif_replay_test.go")
	if err := os.WriteFile(testFile, []byte(src), 0o644); err != nil {
		return "", false, err
	}
	ov := map[string]map[string]string{"Replace": {filepath.Join(repo, "zz_verif_replay_test.go"): testFile}}
	ob, _ := json.Marshal(ov)
	ovFile := filepath.Join(dir, "overlay.json")
	if err := os.WriteFile(ovFile, ob, 0o644); err != nil {
		return "", false, err
	}
	args := []string{"test", "-overlay", ovFile, "-tags", "verif", "-vet=off", "-count=1", "-timeout", "60s", "-run", "^TestVerifReplay$"}
	if race {
		args = append(args, "-race")
	}
	args = append(args, ".")
	cmd := exec.Command("go", args...)
	cmd.Dir = repo
	cmd.Env = append(os.Environ(), "GOFLAGS=-mod=mod", "GOPROXY=off", "GOSUMDB=off", "GOTOOLCHAIN=local")
	var out bytes.Buffer
	cmd.Stdout = &out
	cmd.Stderr = &out
	err = cmd.Run()
	failed := err != nil
	if _, isExit := err.(*exec.ExitError); err != nil && !isExit {
		return out.String(), failed, err
	}
	return out.String(), failed, nil
}

// runReplayFile re-runs a recorded replay: exit 1 if the violation still reproduces.
func runReplayFile(repo, verif, path string) int {
	b, err := os.ReadFile(path)
	if err != nil {
		fmt.Fprintln(os.Stderr, err)
		return 2
	}
	var rp map[string]interface{}
	if err := json.Unmarshal(b, &rp); err != nil {
		fmt.Fprintln(os.Stderr, err)
		return 2
	}
	src, _ := rp["test_source"].(string)
	prop, _ := rp["property"].(string)
	if src == "" {
		fmt.Printf("replay %s: obligation %v has no executable counterexample (no-failing-input-found); re-run the check to re-decide it\n", path, rp["obligation"])
		return 0
	}
	out, failed, err := runOverlayTest(repo, src, strings.Contains(src, "//verif:race"))
	fmt.Print(out)
	if err != nil {
		fmt.Fprintln(os.Stderr, "replay could not run:", err)
		return 2
	}
	if failed && (strings.Contains(out, "VIOLATION-CONFIRMED") || strings.Contains(out, "DATA RACE") || strings.Contains(out, "concurrent map")) {
		fmt.Printf("VIOLATION property=%s replay=%s\n", prop, path)
		return 1
	}
	fmt.Println("replay: the recorded counterexample no longer fails on this tree")
	return 0
}
