package main

import (
	"fmt"
	"go/token"
	"go/types"
	"os"
	"strings"

	"golang.org/x/tools/go/ssa"
)

// ---- maps ----

func (e *Engine) mapNames(mt *types.Map) (dom, ln string, vals []string, vcomps []Comp) {
	n := e.P.relType(mt)
	dom = "M|" + n + "|dom"
	ln = "M|" + n + "|len"
	vcomps = e.flatten(mt.Elem())
	for _, c := range vcomps {
		nm := "M|" + n + "|val" + c.Path
		e.noteRef(nm, c)
		vals = append(vals, nm)
	}
	return
}

func (st *State) mapKeyTerm(mt *types.Map, k Val) string {
	if len(k.C) == 1 {
		return k.C[0]
	}
	if len(k.C) == 2 { // interface key: pair encoded by an injective function
		return fmt.Sprintf("(pair %s %s)", k.C[0], k.C[1])
	}
	st.e.unsupportedf("map key type %s", mt.Key())
	return ""
}

func (st *State) makeMap(t types.Type) Val {
	e := st.e
	mt := t.Underlying().(*types.Map)
	r := st.newRef("map")
	dom, ln, vals, vcomps := e.mapNames(mt)
	d := st.arr(dom, "(Array Int (Array Int Bool))")
	st.setArr(dom, "(Array Int (Array Int Bool))", store(d, r, "((as const (Array Int Bool)) false)"))
	l := st.arr(ln, "(Array Int Int)")
	st.setArr(ln, "(Array Int Int)", store(l, r, "0"))
	for i, nm := range vals {
		_ = st.arr(nm, arr2Sort(vcomps[i].Sort))
	}
	return Val{T: t, C: []string{r}}
}

func (st *State) mapHas(mt *types.Map, m, k string) string {
	dom, _, _, _ := st.e.mapNames(mt)
	return sel(sel(st.arr(dom, "(Array Int (Array Int Bool))"), m), k)
}

func (st *State) mapLen(mt *types.Map, m string) string {
	_, ln, _, _ := st.e.mapNames(mt)
	return ite(eq(m, "0"), "0", sel(st.arr(ln, "(Array Int Int)"), m))
}

func (st *State) mapGet(mt *types.Map, m, k string) Val {
	e := st.e
	_, _, vals, vcomps := e.mapNames(mt)
	has := st.mapHas(mt, m, k)
	z := e.zero(mt.Elem())
	v := Val{T: mt.Elem()}
	for i, nm := range vals {
		a := st.arr(nm, arr2Sort(vcomps[i].Sort))
		v.C = append(v.C, ite(and(not(eq(m, "0")), has), sel(sel(a, m), k), z.C[i]))
	}
	return v
}

func (st *State) mapUpdate(m, k, v Val, pos token.Pos) {
	e := st.e
	mt := m.T.Underlying().(*types.Map)
	mr := m.C[0]
	kt := st.mapKeyTerm(mt, k)
	st.instantiateFor(kt)
	st.oblige("safety", "map-nil", e.curProps, not(eq(mr, "0")), pos)
	dom, ln, vals, vcomps := e.mapNames(mt)
	if !st.allocConst[mr] {
		st.written[dom] = true
	}
	d := st.arr(dom, "(Array Int (Array Int Bool))")
	had := sel(sel(d, mr), kt)
	if len(st.frames) > 0 {
		st.onMapInsert(st.top(), m, Val{T: mt.Key(), C: []string{kt}}, v, had, pos)
		if c := e.contracts[e.curFn]; c != nil {
			for _, r := range c.MapStores {
				if strings.ReplaceAll(types.TypeString(mt, types.RelativeTo(e.P.TPkg)), " ", "") != r.Type {
					continue
				}
				prev := st.mapGet(mt, mr, kt)
				hadV := Val{T: types.Typ[types.Bool], C: []string{and(not(eq(mr, "0")), had)}}
				// the clause may also name the locals of the function that executes the store
				sc := st.specCtx(st.top(), "mapstore "+r.Type)
				sc.old = st.frames[0].old
				sc.vars["at"], sc.vars["value"], sc.vars["prev"], sc.vars["had"] = Val{T: mt.Key(), C: k.C}, v, prev, hadV
				st.oblige("mapstore", r.Clause.Label, r.Clause.Props, e.evalClause(sc, r.Clause), pos)
			}
		}
	}
	l := st.arr(ln, "(Array Int Int)")
	st.setArr(ln, "(Array Int Int)", store(l, mr, ite(had, sel(l, mr), fmt.Sprintf("(+ %s 1)", sel(l, mr)))))
	st.setArr(dom, "(Array Int (Array Int Bool))", store(d, mr, store(sel(d, mr), kt, "true")))
	for i, nm := range vals {
		a := st.arr(nm, arr2Sort(vcomps[i].Sort))
		st.setArr(nm, arr2Sort(vcomps[i].Sort), store(a, mr, store(sel(a, mr), kt, v.C[i])))
	}
}

func (st *State) mapDelete(m, k Val, pos token.Pos) {
	e := st.e
	mt := m.T.Underlying().(*types.Map)
	mr := m.C[0]
	kt := st.mapKeyTerm(mt, k)
	st.instantiateFor(kt)
	dom, ln, _, _ := e.mapNames(mt)
	if !st.allocConst[mr] {
		st.written[dom] = true
	}
	if len(st.frames) > 0 {
		st.onMapDelete(st.top(), m, Val{T: mt.Key(), C: []string{kt}}, pos)
	}
	d := st.arr(dom, "(Array Int (Array Int Bool))")
	had := and(not(eq(mr, "0")), sel(sel(d, mr), kt))
	st.countRemoval(had)
	l := st.arr(ln, "(Array Int Int)")
	// delete on a nil map is a no-op
	st.setArr(ln, "(Array Int Int)", ite(had, store(l, mr, fmt.Sprintf("(- %s 1)", sel(l, mr))), l))
	st.setArr(dom, "(Array Int (Array Int Bool))", ite(eq(mr, "0"), d, store(d, mr, store(sel(d, mr), kt, "false"))))
}

func (st *State) execLookup(fr *Frame, x *ssa.Lookup) {
	e := st.e
	m := st.val(fr, x.X)
	k := st.val(fr, x.Index)
	mt, ok := x.X.Type().Underlying().(*types.Map)
	if !ok {
		e.unsupportedf("string index lookup")
	}
	st.guardMapAccess(fr, m, false, x.Pos())
	kt := st.mapKeyTerm(mt, k)
	st.instantiateFor(kt)
	v := st.mapGet(mt, m.C[0], kt)
	st.assumeLoaded(v)
	if x.CommaOk {
		has := and(not(eq(m.C[0], "0")), st.mapHas(mt, m.C[0], kt))
		out := Val{T: x.Type(), C: append(append([]string{}, v.C...), has)}
		fr.env[x] = out
		return
	}
	fr.env[x] = v
}

// ---- map range ----

func (st *State) execRange(fr *Frame, x *ssa.Range) {
	e := st.e
	m := st.val(fr, x.X)
	mt, ok := x.X.Type().Underlying().(*types.Map)
	if !ok {
		e.unsupportedf("range over string")
	}
	st.guardMapAccess(fr, m, false, x.Pos())
	id := fmt.Sprintf("%s.%s", fr.fn.RelString(e.P.TPkg), x.Name())
	it := &Iter{ID: id, Map: m, MapT: mt}
	st.iters[id] = it
	// visited := {}
	st.setArr("G|it|"+id+"|visited", "(Array Int Bool)", "((as const (Array Int Bool)) false)")
	fr.env[x] = Val{T: x.Type(), It: it}
}

func (st *State) execNext(fr *Frame, x *ssa.Next) bool {
	e := st.e
	itv := st.val(fr, x.Iter)
	it := itv.It
	if it == nil {
		e.unsupportedf("next on unknown iterator")
	}
	st.guardMapAccess(fr, it.Map, false, x.Pos())
	mt := it.MapT
	m := it.Map.C[0]
	visName := "G|it|" + it.ID + "|visited"
	vis := st.arr(visName, "(Array Int Bool)")
	tt := x.Type().(*types.Tuple)
	// fork: exhausted
	done := st.fork()
	{
		dfr := done.top()
		dom, _, _, _ := e.mapNames(mt)
		d := done.arr(dom, "(Array Int (Array Int Bool))")
		done.assume(fmt.Sprintf("(or (= %s 0) (forall ((k Int)) (! (=> (select (select %s %s) k) (select %s k)) :pattern ((select %s k)) :pattern ((select (select %s %s) k)))))", m, d, m, vis, vis, d, m))
		out := Val{T: x.Type(), C: []string{"false"}}
		out.C = append(out.C, e.zero(tt.At(1).Type()).C...)
		out.C = append(out.C, e.zero(tt.At(2).Type()).C...)
		dfr.env[x] = out
		done.path = append(done.path, fmt.Sprintf("%s.%d:done", fnShort(fr.fn), fr.block.Index))
	}
	// this path: another key
	k := st.fresh("rk", SInt)
	if lo, hi, ok := intRange(mt.Key()); ok {
		st.assume(fmt.Sprintf("(and (<= %s %s) (<= %s %s))", lo, k, k, hi))
	}
	st.assume(and(not(eq(m, "0")), st.mapHas(mt, m, k), not(sel(vis, k))))
	st.setArr(visName, "(Array Int Bool)", store(vis, k, "true"))
	st.countIteration()
	v := st.mapGet(mt, m, k)
	st.assumeLoaded(v)
	out := Val{T: x.Type(), C: []string{"true", k}}
	out.C = append(out.C, v.C...)
	fr.env[x] = out
	// expose the current key/value to loop invariants and contracts
	fr.specVars["$key"] = Val{T: mt.Key(), C: []string{k}}
	st.path = append(st.path, fmt.Sprintf("%s.%d:next", fnShort(fr.fn), fr.block.Index))
	return true
}

// ---- calls ----

func (st *State) execCall(fr *Frame, in ssa.Instruction, call *ssa.CallCommon, pos token.Pos) bool {
	var args []Val
	for _, a := range call.Args {
		args = append(args, st.val(fr, a))
	}
	fv := st.val(fr, call.Value)
	return st.callValue(fr, in, call, fv, args, pos, false)
}

func (st *State) setResult(fr *Frame, in ssa.Instruction, v Val) {
	if in == nil {
		return
	}
	if sv, ok := in.(ssa.Value); ok {
		v.T = sv.Type()
		fr.env[sv] = v
	}
}

// callValue performs a call. For deferred calls `in` is nil and the result is discarded.
func (st *State) callValue(fr *Frame, in ssa.Instruction, call *ssa.CallCommon, fv Val, args []Val, pos token.Pos, isDefer bool) bool {
	e := st.e
	if call.IsInvoke() {
		return st.invoke(fr, in, call, fv, args, pos, isDefer)
	}
	if b, ok := call.Value.(*ssa.Builtin); ok {
		st.builtin(fr, in, b, args, pos)
		return true
	}
	// resolve static callee
	var fn *ssa.Function
	var bindings []Val
	if fv.F != nil {
		fn, bindings = fv.F.Fn, fv.F.Bindings
	} else if len(fv.C) == 1 {
		if f, ok := st.funcs[fv.C[0]]; ok {
			fn, bindings = f.Fn, f.Bindings
		} else {
			var id int
			if _, err := fmt.Sscanf(fv.C[0], "%d", &id); err == nil && e.funcByID[id] != nil {
				fn = e.funcByID[id]
			}
		}
	}
	if fn == nil {
		return st.dynamicCall(fr, in, call, fv, args, pos, isDefer)
	}
	return st.staticCall(fr, in, fn, bindings, args, pos, isDefer)
}

func (st *State) staticCall(fr *Frame, in ssa.Instruction, fn *ssa.Function, bindings, args []Val, pos token.Pos, isDefer bool) bool {
	e := st.e
	name := fn.RelString(e.P.TPkg)
	if os.Getenv("GOVC_CALLS") != "" {
		fmt.Fprintf(os.Stderr, "call %s origin=%v blocks=%d synthetic=%q\n", fn.String(), fn.Origin() != nil, len(fn.Blocks), fn.Synthetic)
	}
	if fn.Origin() != nil {
		// instantiation of a generic function: use the generic body
		name = fn.Origin().RelString(e.P.TPkg)
	}
	// external model?
	if m, ok := models[fn.String()]; ok {
		res, cont := m(st, fr, fn, args, pos)
		if !cont {
			return false
		}
		if res != nil {
			st.setResult(fr, in, *res)
		}
		return true
	}
	if fn.Origin() != nil {
		if m, ok := models[fn.Origin().String()]; ok {
			res, cont := m(st, fr, fn, args, pos)
			if !cont {
				return false
			}
			if res != nil {
				st.setResult(fr, in, *res)
			}
			return true
		}
	}
	if isPkgFunc(e.P, fn) {
		target := fn
		if fn.Origin() != nil && (len(fn.Blocks) == 0 || strings.HasPrefix(fn.Synthetic, "instantiation wrapper")) {
			// an instantiation: the generic body (and its contract) stands for every instance
			target = fn.Origin()
			if len(args) == len(target.Params) {
				boxed := make([]Val, len(args))
				for i, a := range args {
					boxed[i] = e.boxInst(target.Params[i].Type(), a)
				}
				args = boxed
			}
		}
		c := e.contracts[name]
		if ec := e.contracts[e.curFn]; c != nil && ec != nil && strings.Contains(" "+ec.Flags["inlinecalls"]+" ", " "+name+" ") {
			// the function under verification asks to see this callee's body (e.g. a constructor that must observe
			// the effect of the option closures it passes on); the callee's own contract still annotates its loops
			nf := st.pushFrame(target, args, bindings, in)
			nf.isDefer = isDefer
			return true
		}
		if c != nil && !c.Inline && len(st.frames) > 0 && name != e.curFn {
			return st.modularCall(fr, in, target, c, args, pos)
		}
		if len(target.Blocks) == 0 {
			e.unsupportedf("no body for %s", name)
		}
		// synthetic wrappers ($bound, $thunk) and everything without a contract are inlined
		nf := st.pushFrame(target, args, bindings, in)
		nf.isDefer = isDefer
		return true
	}
	if len(fn.Blocks) > 0 && fn.Synthetic != "" {
		nf := st.pushFrame(fn, args, bindings, in)
		nf.isDefer = isDefer
		return true
	}
	return st.unknownExternal(fr, in, fn, args, pos)
}

// unknownExternal: a function outside the package with no model: arbitrary result, no effect on modelled state.
func (st *State) unknownExternal(fr *Frame, in ssa.Instruction, fn *ssa.Function, args []Val, pos token.Pos) bool {
	e := st.e
	e.warn("unmodelled external %s: arbitrary result, assumed not to touch cache state", fn.String())
	e.assumeUsed("unmodelled external " + fn.String() + ": arbitrary result, no effect on cache state")
	st.bumpAlloc()
	if sv, ok := in.(ssa.Value); ok && in != nil {
		r := st.freshVal("ext."+fn.Name(), sv.Type())
		st.assumeAllocated(r)
		fr.env[sv] = r
	}
	return true
}

// ---- interface method calls ----

func (st *State) invoke(fr *Frame, in ssa.Instruction, call *ssa.CallCommon, recv Val, args []Val, pos token.Pos, isDefer bool) bool {
	e := st.e
	if _, isTP := recv.T.(*types.TypeParam); isTP {
		e.unsupportedf("method call on type parameter")
	}
	tag := recv.C[0]
	st.oblige("safety", "nil:invoke."+call.Method.Name(), e.curProps, not(eq(tag, "0")), pos)
	// devirtualise when the dynamic type is known
	var id int
	if _, err := fmt.Sscanf(tag, "%d", &id); err == nil && !strings.HasPrefix(tag, "(") && id != 0 {
		if t, ok := e.tagTypes[id]; ok && t != nil {
			sel := e.P.Prog.MethodSets.MethodSet(t).Lookup(call.Method.Pkg(), call.Method.Name())
			if sel != nil {
				fn := e.P.Prog.MethodValue(sel)
				if fn != nil {
					rv := st.unbox(recv.C[1], t)
					if _, isPtr := t.Underlying().(*types.Pointer); isPtr {
						rv = Val{T: t, C: []string{recv.C[1]}}
					}
					return st.staticCall(fr, in, fn, nil, append([]Val{rv}, args...), pos, isDefer)
				}
			}
		}
	}
	// interface model (context.Context, error, ...)?
	key := ifaceKey(e, call)
	if m, ok := ifaceModels[key]; ok {
		res, cont := m(st, fr, call, recv, args, pos)
		if !cont {
			return false
		}
		if res != nil {
			st.setResult(fr, in, *res)
		}
		return true
	}
	return st.callOut(fr, in, key, call.Signature(), append([]Val{recv}, args...), pos)
}

func ifaceKey(e *Engine, call *ssa.CallCommon) string {
	t := call.Value.Type()
	s := e.P.relType(t)
	if n, ok := t.(*types.Named); ok && n.TypeArgs().Len() > 0 {
		s = n.Obj().Name()
		if n.Obj().Pkg() != nil && n.Obj().Pkg() != e.P.TPkg {
			s = n.Obj().Pkg().Path() + "." + s
		}
	}
	return s + "." + call.Method.Name()
}

// dynamicCall: call of a function value that is not statically known (callback, func-typed field or parameter).
func (st *State) dynamicCall(fr *Frame, in ssa.Instruction, call *ssa.CallCommon, fv Val, args []Val, pos token.Pos, isDefer bool) bool {
	e := st.e
	if len(fv.C) != 1 {
		e.unsupportedf("call of non-function value")
	}
	st.oblige("safety", "nil:call", e.curProps, not(eq(fv.C[0], "0")), pos)
	kind := callKind(e, call.Value)
	return st.callOut(fr, in, kind, call.Signature(), append([]Val{fv}, args...), pos)
}

// callKind names a dynamic callee by where the function value comes from.
func callKind(e *Engine, v ssa.Value) string {
	switch x := v.(type) {
	case *ssa.Parameter:
		return x.Name()
	case *ssa.FreeVar:
		return x.Name()
	case *ssa.UnOp:
		if fa, ok := x.X.(*ssa.FieldAddr); ok {
			st := fa.X.Type().Underlying().(*types.Pointer).Elem()
			f := st.Underlying().(*types.Struct).Field(fa.Field)
			return typeBase(e, st) + "." + f.Name()
		}
		if ia, ok := x.X.(*ssa.IndexAddr); ok {
			return callKind(e, ia.X) + "[]"
		}
		return "func"
	case *ssa.Field:
		st := x.X.Type()
		f := st.Underlying().(*types.Struct).Field(x.Field)
		return typeBase(e, st) + "." + f.Name()
	case *ssa.Phi:
		if x.Comment != "" {
			return x.Comment
		}
	case *ssa.Extract:
		return "func"
	}
	return "func"
}

func typeBase(e *Engine, t types.Type) string {
	if n, ok := t.(*types.Named); ok {
		return n.Obj().Name()
	}
	return e.P.relType(t)
}

// callOut models a call into code outside the verified package (user callbacks, interface implementations):
// the results are arbitrary (subject to the kind's assumed contract); only the ghost call record changes.
func (st *State) callOut(fr *Frame, in ssa.Instruction, kind string, sig *types.Signature, args []Val, pos token.Pos) bool {
	e := st.e
	st.checkCallOutAllowed(fr, kind, pos)
	for _, a := range args {
		st.publish(a, "") // whatever is handed to foreign code is shared from now on
	}
	if _, ok := e.kindSigs[kind]; !ok {
		e.kindSigs[kind] = sig
	}
	cntName := "G|cnt|" + kind
	e.ghostInit[cntName] = "(>= $ 0)"
	n := st.arr(cntName, "Int")
	// record arguments (args[0] is the receiver / function value)
	for i, a := range args {
		for j, c := range e.flatten(a.T) {
			nm := fmt.Sprintf("G|arg|%s|%d%s", kind, i, c.Path)
			arr := st.arr(nm, arrSort(c.Sort))
			st.setArr(nm, arrSort(c.Sort), store(arr, n, a.C[j]))
		}
	}
	st.bumpAlloc()
	// results
	var res Val
	rt := sig.Results()
	var parts []Val
	for i := 0; i < rt.Len(); i++ {
		r := st.freshVal(fmt.Sprintf("%s.r%d", kind, i), rt.At(i).Type())
		st.assumeAllocated(r)
		parts = append(parts, r)
		for j, c := range e.flatten(r.T) {
			nm := fmt.Sprintf("G|res|%s|%d%s", kind, i, c.Path)
			arr := st.arr(nm, arrSort(c.Sort))
			st.setArr(nm, arrSort(c.Sort), store(arr, n, r.C[j]))
		}
	}
	st.setArr(cntName, "Int", fmt.Sprintf("(+ %s 1)", n))
	st.written[cntName] = true
	for _, w := range callOutExtraWrites[kind] {
		st.written[w] = true
	}
	if kind == "StatsTracker.Add" {
		st.written["G|metric"] = true
	}
	// kind-specific assumed contract
	if h, ok := callOutHooks[kind]; ok {
		h(st, fr, args, parts, pos)
	}
	c := e.ifaceSpecs[kind]
	if c2 := e.ifaceSpecs[kind+" "+types.TypeString(sig, types.RelativeTo(e.P.TPkg))]; c2 != nil {
		c = c2 // a spec for this kind AND signature (parameter names clash across functions: options[])
	} else if c != nil && c.Flags["sig"] != "" && c.Flags["sig"] != types.TypeString(sig, types.RelativeTo(e.P.TPkg)) {
		c = nil
	}
	if c != nil {
		pre := st.snapshot()
		for _, m := range e.expandFrames(c.Modifies) {
			st.havoc(strings.TrimPrefix(m, "new:"))
		}
		st.applyCallOutSpec(fr, c, kind, args, parts, pre, pos)
	}
	e.assumeUsed("call-out " + kind + ": results arbitrary within its assumed contract; does not re-enter the cache instance, does not retain or mutate slices passed to it, does not panic")
	if in != nil {
		if sv, ok := in.(ssa.Value); ok {
			if rt.Len() == 1 {
				res = parts[0]
			} else {
				res = Val{T: sv.Type()}
				for _, p := range parts {
					res.C = append(res.C, p.C...)
				}
			}
			st.setResult(fr, in, res)
		}
	}
	return true
}

// ---- go statements ----

func (st *State) execGo(fr *Frame, x *ssa.Go) bool {
	e := st.e
	fv := st.val(fr, x.Call.Value)
	name := "go"
	if fv.F != nil {
		name = fv.F.Fn.RelString(e.P.TPkg)
	}
	cntName := "G|cnt|go:" + name
	e.ghostInit[cntName] = "(>= $ 0)"
	n := st.arr(cntName, "Int")
	// the arguments of the spawned call are logged like those of a call-out (receiver at 0, parameters from 1)
	if fv.F != nil {
		shift := 1
		if fv.F.Fn.Signature.Recv() != nil {
			shift = 0
		}
		for i, av := range x.Call.Args {
			a := st.val(fr, av)
			for j, cp := range e.flatten(a.T) {
				if j >= len(a.C) {
					break
				}
				nm := fmt.Sprintf("G|arg|go:%s|%d%s", name, i+shift, cp.Path)
				arr := st.arr(nm, arrSort(cp.Sort))
				st.setArr(nm, arrSort(cp.Sort), store(arr, n, a.C[j]))
			}
		}
	}
	st.setArr(cntName, "Int", fmt.Sprintf("(+ %s 1)", n))
	st.onGo(fr, x, fv)
	return true
}

// ---- builtins ----

func (st *State) builtin(fr *Frame, in ssa.Instruction, b *ssa.Builtin, args []Val, pos token.Pos) {
	e := st.e
	switch b.Name() {
	case "len":
		a := args[0]
		switch t := a.T.Underlying().(type) {
		case *types.Slice:
			st.setResult(fr, in, Val{C: []string{a.C[2]}})
		case *types.Basic:
			st.setResult(fr, in, Val{C: []string{fmt.Sprintf("(strlen %s)", a.C[0])}})
		case *types.Map:
			st.guardMapAccess(fr, a, false, pos)
			l := st.mapLen(t, a.C[0])
			st.assume(fmt.Sprintf("(and (>= %s 0) (< %s 1099511627776))", l, l))
			e.assumeUsed("a Go map holds fewer than 2^40 entries (memory)")
			st.setResult(fr, in, Val{C: []string{l}})
		case *types.Array:
			st.setResult(fr, in, Val{C: []string{fmt.Sprint(t.Len())}})
		case *types.Pointer:
			st.setResult(fr, in, Val{C: []string{fmt.Sprint(t.Elem().Underlying().(*types.Array).Len())}})
		default:
			e.unsupportedf("len of %s", a.T)
		}
	case "cap":
		st.setResult(fr, in, Val{C: []string{args[0].C[3]}})
	case "delete":
		st.guardMapAccess(fr, args[0], true, pos)
		st.mapDelete(args[0], args[1], pos)
	case "copy":
		st.builtinCopy(fr, in, args, pos)
	case "append":
		st.builtinAppend(fr, in, args, pos)
	case "close":
		ch := args[0].C[0]
		st.oblige("safety", "chan-close", e.curProps, and(not(eq(ch, "0")), not(st.chanClosed(ch))), pos)
		st.onChanClose(fr, args[0], pos)
		st.setChanClosed(ch, "true")
		st.written[chanClosedName] = true
	case "panic":
		st.oblige("safety", "panic", e.curProps, "false", pos)
	case "ssa:wrapnilchk":
		// compiler-inserted nil check of a wrapper's receiver
		st.checkNonNil(args[0].C[0], pos, "wrapper-receiver")
		st.setResult(fr, in, args[0])
	case "print", "println":
	case "min", "max":
		op := "<="
		if b.Name() == "max" {
			op = ">="
		}
		r := args[0].C[0]
		for _, a := range args[1:] {
			r = ite(fmt.Sprintf("(%s %s %s)", op, r, a.C[0]), r, a.C[0])
		}
		st.setResult(fr, in, Val{C: []string{r}})
	default:
		e.unsupportedf("builtin %s", b.Name())
	}
}

func (st *State) builtinCopy(fr *Frame, in ssa.Instruction, args []Val, pos token.Pos) {
	e := st.e
	dst, src := args[0], args[1]
	et := dst.T.Underlying().(*types.Slice).Elem()
	var srcLen, srcContent string
	if isString(src.T) {
		srcLen = fmt.Sprintf("(strlen %s)", src.C[0])
	} else {
		srcLen = src.C[2]
	}
	n := ite(fmt.Sprintf("(<= %s %s)", dst.C[2], srcLen), dst.C[2], srcLen)
	st.checkBorrowWrite(fr, dst, pos)
	if b, ok := et.Underlying().(*types.Basic); ok && b.Kind() == types.Uint8 {
		// byte copy: the destination prefix now holds the source prefix (content-level model)
		name := elemsName(e, et, "")
		a := st.arr(name, arr2Sort(SInt))
		if isString(src.T) {
			srcContent = ite(eq(n, srcLen), src.C[0], fmt.Sprintf("(substr %s 0 %s)", src.C[0], n))
		} else {
			srcContent = ite(eq(n, "0"), "0", fmt.Sprintf("(bytesof (select %s %s) %s %s)", a, src.C[0], src.C[1], n))
		}
		newInner := st.freshSort("copied", "(Array Int Int)")
		st.setArr(name, arr2Sort(SInt), ite(eq(n, "0"), a, store(a, dst.C[0], newInner)))
		st.assume(implies(not(eq(n, "0")), eq(fmt.Sprintf("(bytesof %s %s %s)", newInner, dst.C[1], n), srcContent)))
		// bytes outside the copied window are unchanged
		st.assume(fmt.Sprintf("(forall ((i Int)) (! (=> (or (< i %s) (>= i (+ %s %s))) (= (select %s i) (select (select %s %s) i))) :pattern ((select %s i))))", dst.C[1], dst.C[1], n, newInner, a, dst.C[0], newInner))
	} else {
		// element-wise copy, quantified
		for _, c := range e.flatten(et) {
			name := elemsName(e, et, c.Path)
			a := st.arr(name, arr2Sort(c.Sort))
			newInner := st.freshSort("copied", "(Array Int "+smtSort(c.Sort)+")")
			st.assume(fmt.Sprintf("(forall ((i Int)) (! (= (select %s i) (ite (and (<= %s i) (< i (+ %s %s))) (select (select %s %s) (+ %s (- i %s))) (select (select %s %s) i))) :pattern ((select %s i))))",
				newInner, dst.C[1], dst.C[1], n, a, src.C[0], src.C[1], dst.C[1], a, dst.C[0], newInner))
			st.setArr(name, arr2Sort(c.Sort), store(a, dst.C[0], newInner))
		}
	}
	st.setResult(fr, in, Val{C: []string{n}})
}

func (st *State) builtinAppend(fr *Frame, in ssa.Instruction, args []Val, pos token.Pos) {
	e := st.e
	s, add := args[0], args[1]
	stype := s.T.Underlying().(*types.Slice)
	et := stype.Elem()
	if _, isStruct := et.Underlying().(*types.Struct); isStruct && !isTimeTime(et) {
		st.appendStructs(fr, in, s, add, pos)
		return
	}
	var addLen string
	if isString(add.T) {
		addLen = fmt.Sprintf("(strlen %s)", add.C[0])
	} else {
		addLen = add.C[2]
	}
	newLen := fmt.Sprintf("(+ %s %s)", s.C[2], addLen)
	// Either the capacity suffices (same backing store) or a fresh one is allocated with the old prefix copied.
	fits := fmt.Sprintf("(<= %s %s)", newLen, s.C[3])
	freshBase := st.newRef("append")
	resBase := ite(and(fits, not(eq(s.C[0], "0"))), s.C[0], freshBase)
	resOff := ite(and(fits, not(eq(s.C[0], "0"))), s.C[1], "0")
	resCap := st.fresh("appcap", SInt)
	st.assume(fmt.Sprintf("(and (>= %s %s) (=> %s (= %s %s)))", resCap, newLen, and(fits, not(eq(s.C[0], "0"))), resCap, s.C[3]))
	for _, c := range e.flatten(et) {
		name := elemsName(e, et, c.Path)
		e.noteRef(name, c)
		a := st.arr(name, arr2Sort(c.Sort))
		newInner := st.freshSort("appended", "(Array Int "+smtSort(c.Sort)+")")
		var srcAt string
		if isString(add.T) {
			srcAt = fmt.Sprintf("(strbyte %s (- i (+ %s %s)))", add.C[0], resOff, s.C[2])
		} else {
			srcAt = fmt.Sprintf("(select (select %s %s) (+ %s (- i (+ %s %s))))", a, add.C[0], add.C[1], resOff, s.C[2])
		}
		// new backing content: old prefix, then the appended elements; other positions as in the chosen store
		st.assume(fmt.Sprintf("(forall ((i Int)) (! (= (select %s i) (ite (and (<= %s i) (< i (+ %s %s))) (select (select %s %s) (+ %s (- i %s))) (ite (and (<= (+ %s %s) i) (< i (+ %s %s))) %s (select (select %s %s) i)))) :pattern ((select %s i))))",
			newInner, resOff, resOff, s.C[2], a, s.C[0], s.C[1], resOff,
			resOff, s.C[2], resOff, newLen, srcAt, a, resBase, newInner))
		if !isString(add.T) {
			// the same fact, found from the source side: every appended element is in the result (lets the solver
			// produce the witness of "exists m :: result[m] == add[t]")
			st.assume(fmt.Sprintf("(forall ((u Int)) (! (=> (and (<= %s u) (< u (+ %s %s))) (= (select %s (slot %s (+ %s (- u %s)))) (select (select %s %s) u))) :pattern ((select (select %s %s) u))))",
				add.C[1], add.C[1], addLen, newInner, resOff, s.C[2], add.C[1], a, add.C[0], a, add.C[0]))
		}
		st.setArr(name, arr2Sort(c.Sort), store(a, resBase, newInner))
	}
	res := Val{T: s.T, C: []string{resBase, resOff, newLen, resCap}}
	st.assume(fmt.Sprintf("(not (= %s 0))", resBase))
	st.setResult(fr, in, res)
}

func (st *State) appendStructs(fr *Frame, in ssa.Instruction, s, add Val, pos token.Pos) {
	e := st.e
	et := s.T.Underlying().(*types.Slice).Elem()
	newLen := fmt.Sprintf("(+ %s %s)", s.C[2], add.C[2])
	fits := and(fmt.Sprintf("(<= %s %s)", newLen, s.C[3]), not(eq(s.C[0], "0")))
	freshBase := st.newRef("append")
	// named by constants so that they can occur in quantifier patterns (no ite inside a pattern)
	resBase := st.fresh("appbase", SInt)
	resOff := st.fresh("appoff", SInt)
	st.assume(eq(resBase, ite(fits, s.C[0], freshBase)))
	st.assume(eq(resOff, ite(fits, s.C[1], "0")))
	resCap := st.fresh("appcap", SInt)
	st.assume(fmt.Sprintf("(and (>= %s %s) (=> %s (= %s %s)))", resCap, newLen, fits, resCap, s.C[3]))
	// struct elements live in object fields H|T|f[el(base,i)]: copy = quantified update of each field array
	for _, c := range e.flatten(et) {
		name := heapName(e, et, c.Path)
		e.noteRef(name, c)
		a := st.arr(name, arrSort(c.Sort))
		st.havoc(name)
		na := st.arr(name, arrSort(c.Sort))
		// elements of the result: old prefix then appended; every other object unchanged
		st.assume(fmt.Sprintf("(forall ((i Int)) (! (=> (and (<= 0 i) (< i %s)) (= (select %s (el %s (slot %s i))) (select %s (el %s (slot %s i))))) :pattern ((select %s (el %s (slot %s i))))))",
			s.C[2], na, resBase, resOff, a, s.C[0], s.C[1], na, resBase, resOff))
		if add.C[2] == "1" {
			// the common case append(s, x): one ground equation, no quantifier
			st.assume(fmt.Sprintf("(= (select %s (el %s (slot %s %s))) (select %s (el %s (slot %s 0))))", na, resBase, resOff, s.C[2], a, add.C[0], add.C[1]))
		} else {
			st.assume(fmt.Sprintf("(forall ((i Int)) (! (=> (and (<= 0 i) (< i %s)) (= (select %s (el %s (slot %s (+ %s i)))) (select %s (el %s (slot %s i))))) :pattern ((select %s (el %s (slot %s (+ %s i)))))))",
				add.C[2], na, resBase, resOff, s.C[2], a, add.C[0], add.C[1], na, resBase, resOff, s.C[2]))
		}
		st.assume(fmt.Sprintf("(forall ((r Int)) (! (=> (not (and (= (el_base r) %s) (<= (slot %s 0) (el_idx r)) (< (el_idx r) (slot %s %s)))) (= (select %s r) (select %s r))) :pattern ((select %s r))))",
			resBase, resOff, resOff, newLen, na, a, na))
	}
	st.assume(fmt.Sprintf("(not (= %s 0))", resBase))
	st.setResult(fr, in, Val{T: s.T, C: []string{resBase, resOff, newLen, resCap}})
}

// countRemoval: ghost counter of entries actually removed from maps / sync.Maps by this call (removed() in specs).
func (st *State) countRemoval(had string) {
	const name = "G|removed"
	st.e.ghostInit[name] = "(and (>= $ 0) (< $ 4611686018427387904))"
	n := st.arr(name, "Int")
	st.setArr(name, "Int", fmt.Sprintf("(+ %s %s)", n, ite(had, "1", "0")))
	st.written[name] = true
}

// countIteration: ghost counter of keys handed out by map range loops and sync.Map.Range (iterated() in specs).
func (st *State) countIteration() {
	const name = "G|iterated"
	st.e.ghostInit[name] = "(and (>= $ 0) (< $ 4611686018427387904))"
	n := st.arr(name, "Int")
	st.setArr(name, "Int", fmt.Sprintf("(+ %s 1)", n))
	st.written[name] = true
}
