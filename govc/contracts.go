package main

import (
	"fmt"
	"go/ast"
	"go/token"
	"go/types"
	"sort"
	"strings"

	"golang.org/x/tools/go/ssa"
)

func (e *Engine) loadContracts(paths ...string) error {
	for _, p := range paths {
		cs, defs, err := parseContracts(p)
		if err != nil {
			return err
		}
		for _, d := range defs {
			e.defs[d.Name] = d
		}
		for _, cc := range cs {
			for k, v := range cc.Frames {
				e.frames[k] = v
			}
		}
		for _, c := range cs {
			if strings.HasPrefix(c.Name, "frame ") {
				continue
			}
			if c.Trusted {
				if _, dup := e.ifaceSpecs[c.Name]; dup {
					return fmt.Errorf("%s:%d: duplicate spec for %s", p, c.Line, c.Name)
				}
				e.ifaceSpecs[c.Name] = c
				continue
			}
			if _, dup := e.contracts[c.Name]; dup {
				return fmt.Errorf("%s:%d: duplicate contract for %s", p, c.Line, c.Name)
			}
			e.contracts[c.Name] = c
		}
	}
	return nil
}

// specCtx builds an evaluation context for clauses of the frame's function.
func (st *State) specCtx(fr *Frame, where string) *SpecCtx {
	vars := map[string]Val{}
	for k, v := range fr.specVars {
		vars[k] = v
	}
	sc := &SpecCtx{st: st, vars: vars, old: fr.old, where: where, fn: fr.fn.RelString(st.e.P.TPkg), fr: fr}
	// address-taken locals: read their current content
	for name, p := range fr.specAddrs {
		if _, ok := vars[name]; !ok {
			vars[name] = sc.load(p)
		}
	}
	st.evalLets(sc, fr.contract)
	return sc
}

func (st *State) evalLets(sc *SpecCtx, c *Contract) {
	if c == nil {
		return
	}
	for _, l := range c.Lets {
		func() {
			defer func() {
				if r := recover(); r != nil {
					if _, ok := r.(specErr); ok {
						return // a let that cannot be evaluated here (e.g. refers to results) is simply undefined
					}
					panic(r)
				}
			}()
			sc.vars[l.Label] = sc.eval(l.Expr)
		}()
	}
}

func (e *Engine) evalClause(sc *SpecCtx, cl *Clause) (t string) {
	defer func() {
		if r := recover(); r != nil {
			if se, ok := r.(specErr); ok {
				e.unsupportedf("contract error: %s (line %d)", se.msg, cl.Line)
			}
			panic(r)
		}
	}()
	return sc.evalBool(cl.Expr)
}

// verifyFunction symbolically executes fn under its contract and collects obligations.
func (e *Engine) verifyFunction(name string) error {
	fn := e.P.Funcs[name]
	if fn == nil {
		return fmt.Errorf("function %q not found in package", name)
	}
	c := e.contracts[name]
	e.curFn = name
	e.kindSigs = map[string]*types.Signature{} // call-out kinds are named after parameters and methods: per function
	e.curProps = nil
	if c != nil {
		e.curProps = c.Props
	}
	e.fnStats[name] = &FnStat{}
	e.curReplay = ""
	st := e.newState()
	func() {
		defer func() {
			if r := recover(); r != nil {
				if u, ok := r.(unsupportedErr); ok {
					e.unsupported[name] = append(e.unsupported[name], u.msg)
					return
				}
				if u, ok := r.(specErr); ok {
					e.unsupported[name] = append(e.unsupported[name], "contract error: "+u.msg)
					return
				}
				panic(r)
			}
		}()
		var args []Val
		for i, p := range fn.Params {
			v := st.freshVal("p."+p.Name(), p.Type())
			st.assumeAllocated(v)
			if i == 0 && fn.Signature.Recv() != nil {
				if _, isPtr := p.Type().Underlying().(*types.Pointer); isPtr {
					st.assume(fmt.Sprintf("(not (= %s 0))", v.C[0]))
					st.nonnil[v.C[0]] = true
				}
			}
			args = append(args, v)
		}
		var bindings []Val
		for _, fv := range fn.FreeVars {
			v := st.freshVal("fv."+fv.Name(), fv.Type())
			st.assumeAllocated(v)
			if _, isPtr := fv.Type().Underlying().(*types.Pointer); isPtr {
				st.assume(fmt.Sprintf("(not (= %s 0))", v.C[0]))
				st.nonnil[v.C[0]] = true
			}
			bindings = append(bindings, v)
		}
		fr := st.pushFrame(fn, args, bindings, nil)
		if c != nil {
			// "unshared <param>": the object is not yet reachable by other goroutines (an initialiser); callers prove it
			for _, pn := range strings.Fields(c.Flags["unshared"]) {
				for i, p := range fn.Params {
					if p.Name() == pn && len(args[i].C) > 0 {
						st.private[args[i].C[0]] = true
					}
				}
			}
			fr.isThread = c.Thread
			sc := st.specCtx(fr, name+" requires")
			sc.grant = true
			for _, r := range c.Requires {
				st.assume(e.evalClause(sc, r))
			}
		}
		if c != nil && c.Flags["replay"] != "" {
			e.curReplay = c.Flags["replay"]
			st.declareReplayTerms(fr, name, c)
		}
		st.onFunctionEntry(fr)
		// vacuity: the precondition must be satisfiable
		st.cover("pre", e.curProps, token.NoPos)
		e.run(st)
	}()
	return nil
}

// checkPost asserts the postconditions at a return of the function under contract.
func (st *State) checkPost(fr *Frame, res []Val, pos token.Pos) {
	e := st.e
	c := fr.contract
	st.onFunctionExit(fr, pos)
	blk := fr.block.Index
	st.cover(fmt.Sprintf("return@b%d", blk), e.curProps, pos)
	if c == nil {
		return
	}
	sc := st.specCtx(fr, fr.fn.Name()+" ensures")
	bindResults(sc, fr.fn.Signature, res)
	st.evalLets(sc, c)
	for i, en := range c.Ensures {
		label := en.Label
		if label == "" {
			label = fmt.Sprintf("ens%d", i+1)
		}
		t := e.evalClause(sc, en)
		st.oblige("post", label, en.Props, t, pos)
	}
	st.checkFrame(fr, c, pos)
}

// checkFrame: a function that declares a frame ("modifies ..." or "pure") writes nothing outside it. Callers rely on
// this: at a call site exactly the declared patterns are forgotten.
func (st *State) checkFrame(fr *Frame, c *Contract, pos token.Pos) {
	e := st.e
	if len(c.Modifies) == 0 && !c.Pure {
		return // no frame declared: callers forget everything
	}
	var pats []string
	for _, m := range e.expandFrames(c.Modifies) {
		pats = append(pats, strings.TrimPrefix(m, "new:"))
	}
	covered := func(name string) bool {
		// implied by the primary names of the same log: cnt|K covers arg|K|*, res|K|*; clock covers clk, nclk
		switch {
		case strings.HasPrefix(name, "G|arg|"), strings.HasPrefix(name, "G|res|"):
			return true // checked through their counter G|cnt|K
		case name == "G|clk", name == "G|nclk", name == "G|cnt|rand":
			return true
		case strings.HasPrefix(name, "G|cnt|go:"):
			return true
		}
		if strings.HasPrefix(name, "G|cnt|") {
			kind := strings.TrimPrefix(name, "G|cnt|")
			for n := range e.contracts {
				if fn := e.P.Funcs[n]; fn != nil && fn.Name() == kind {
					return true // the call log of contracted callees is bookkeeping, part of every frame
				}
			}
		}
		for _, p := range pats {
			if matchPat(p, name) {
				return true
			}
			// a pattern written by a callee (itself a pattern) is covered if it is at least as narrow
			if strings.HasSuffix(p, "*") && strings.HasPrefix(name, p[:len(p)-1]) {
				return true
			}
		}
		return false
	}
	bad := map[string]bool{}
	for name := range st.written {
		if name == allocName || strings.HasPrefix(name, "G|it|") {
			continue
		}
		if !covered(name) {
			bad[name] = true
		}
	}
	for _, h := range st.havocked {
		if !covered(h) {
			bad[h] = true
		}
	}
	goal := "true"
	if len(bad) > 0 {
		goal = "false"
	}
	ob := st.oblige("frame", "modifies", e.curProps, goal, pos)
	if ob != nil {
		var names []string
		for n := range bad {
			names = append(names, n)
		}
		sort.Strings(names)
		ob.Note = "writes outside the declared frame: " + strings.Join(names, " ")
	}
}

func bindResults(sc *SpecCtx, sig *types.Signature, res []Val) {
	rt := sig.Results()
	for i, r := range res {
		sc.vars[fmt.Sprintf("result%d", i)] = r
		if i < rt.Len() && rt.At(i).Name() != "" && rt.At(i).Name() != "_" {
			sc.vars[rt.At(i).Name()] = r
		}
	}
	if len(res) == 1 {
		sc.vars["result"] = res[0]
	}
}

// modularCall replaces a call of a function under contract by its contract.
func (st *State) modularCall(fr *Frame, in ssa.Instruction, fn *ssa.Function, c *Contract, args []Val, pos token.Pos) bool {
	e := st.e
	name := fn.RelString(e.P.TPkg)
	vars := map[string]Val{}
	for i, p := range fn.Params {
		vars[p.Name()] = args[i]
	}
	if cc := e.contracts[e.curFn]; cc != nil {
		for _, r := range cc.OnCalls {
			if r.Type == fn.Name() {
				csc := st.specCtx(fr, "oncall "+r.Type)
				csc.old = st.frames[0].old
				for i, a := range args {
					csc.vars[fmt.Sprintf("callarg%d", i)] = a // the arguments of the call, by position
				}
				st.oblige("callsite", r.Clause.Label, r.Clause.Props, e.evalClause(csc, r.Clause), pos)
			}
		}
	}
	pre := st.snapshot()
	sc := &SpecCtx{st: st, vars: vars, old: pre, where: "call of " + name, fn: name}
	st.evalLets(sc, c)
	for i, r := range c.Requires {
		label := r.Label
		if label == "" {
			label = fmt.Sprintf("req%d", i+1)
		}
		props := r.Props
		if len(props) == 0 {
			props = e.curProps
		}
		st.oblige("pre", name+"."+label, mergeProps(props, e.curProps), e.evalClause(sc, r), pos)
	}
	if c.Assumed {
		e.assumeUsed("assumed contract (body not verified): " + name)
	}
	for _, pn := range strings.Fields(c.Flags["unshared"]) {
		for i, p := range fn.Params {
			if p.Name() == pn && len(args[i].C) > 0 {
				goal := "false"
				if st.private[args[i].C[0]] {
					goal = "true"
				}
				st.oblige("own", "unshared:"+name+"#"+pn, mergeProps(c.Props, []string{"C16"}), goal, pos)
			}
		}
	}
	st.onModularCall(fr, fn, c, args, pos)
	preAlloc := st.alloc()
	st.bumpAlloc()
	mods := e.expandFrames(c.Modifies)
	if len(mods) == 0 && !c.Pure {
		// the callee declares no frame: everything it could reach may have changed
		mods = []string{"H|*", "E|*", "M|*", "SM|*", "G|cnt|*", "G|arg|*", "G|res|*", "G|metric", "G|clock", "G|clk", "G|nclk", "G|rand", "G|delok", chanClosedName}
		e.warn("call of %s: the contract declares no frame (modifies/pure): the caller forgets the whole heap", name)
	}
	for _, m := range mods {
		if m == allocName {
			continue
		}
		if strings.HasPrefix(m, "new:") {
			// only objects allocated by the callee may change under this pattern
			st.havocNewOnly(strings.TrimPrefix(m, "new:"), preAlloc)
			continue
		}
		st.havoc(m)
	}
	var parts []Val
	rt := fn.Signature.Results()
	for i := 0; i < rt.Len(); i++ {
		r := st.freshVal(fmt.Sprintf("%s.r%d", fn.Name(), i), rt.At(i).Type())
		st.assumeAllocated(r)
		parts = append(parts, r)
	}
	sc2 := &SpecCtx{st: st, vars: vars, old: pre, where: "post of " + name, fn: name}
	bindResults(sc2, fn.Signature, parts)
	st.evalLets(sc2, c)
	for _, en := range c.Ensures {
		st.assume(e.evalClause(sc2, en))
	}
	// contracted callees appear in the ghost call log too (kind = short function name)
	kind := fn.Name()
	cntName := "G|cnt|" + kind
	e.ghostInit[cntName] = "(>= $ 0)"
	cn := st.arr(cntName, "Int")
	shift := 1
	if fn.Signature.Recv() != nil {
		shift = 0 // the receiver is argument 0, parameters start at 1 (as for interface call-outs)
	}
	for i, a := range args {
		for j, cp := range e.flatten(a.T) {
			nm := fmt.Sprintf("G|arg|%s|%d%s", kind, i+shift, cp.Path)
			arr := st.arr(nm, arrSort(cp.Sort))
			st.setArr(nm, arrSort(cp.Sort), store(arr, cn, a.C[j]))
		}
	}
	for i, r := range parts {
		for j, cp := range e.flatten(r.T) {
			nm := fmt.Sprintf("G|res|%s|%d%s", kind, i, cp.Path)
			arr := st.arr(nm, arrSort(cp.Sort))
			st.setArr(nm, arrSort(cp.Sort), store(arr, cn, r.C[j]))
		}
	}
	st.setArr(cntName, "Int", fmt.Sprintf("(+ %s 1)", cn))
	if in != nil {
		if sv, ok := in.(ssa.Value); ok {
			st.setResult(fr, in, packResults(e, sv.Type(), parts))
		}
	}
	return true
}

// expandFrames replaces @name by the patterns of a declared frame.
func (e *Engine) expandFrames(ms []string) []string {
	var out []string
	for _, m := range ms {
		if strings.HasPrefix(m, "@") {
			out = append(out, e.expandFrames(e.frames[m[1:]])...)
			continue
		}
		out = append(out, m)
	}
	return out
}

// havocNewOnly: arrays matching the pattern keep their content for every object allocated before the call.
func (st *State) havocNewOnly(pat, preAlloc string) {
	type kept struct{ name, sort, old string }
	var ks []kept
	for name, sort := range st.e.arrSorts {
		if matchPat(pat, name) {
			ks = append(ks, kept{name, sort, st.arr(name, sort)})
		}
	}
	st.havoc(pat)
	for _, k := range ks {
		nw := st.arr(k.name, k.sort)
		ax := fmt.Sprintf("(forall ((b Int)) (! (=> (< b %s) (= (select %s b) (select %s b))) :pattern ((select %s b))))", preAlloc, nw, k.old, nw)
		st.assume(ax)
		st.frameAxioms = append(st.frameAxioms, ax)
	}
}

func mergeProps(a, b []string) []string {
	m := map[string]bool{}
	var out []string
	for _, x := range append(append([]string{}, a...), b...) {
		if !m[x] {
			m[x] = true
			out = append(out, x)
		}
	}
	return out
}

// applyCallOutSpec assumes the declared contract of an interface method / callback kind.
func (st *State) applyCallOutSpec(fr *Frame, c *Contract, kind string, args []Val, res []Val, pre *Snapshot, pos token.Pos) {
	e := st.e
	sig := e.kindSigs[kind]
	vars := map[string]Val{}
	for k, v := range fr.specVars {
		vars[k] = v // the spec of a callback may mention the variables of the function that calls it
	}
	if sig != nil {
		for i := 0; i < sig.Params().Len() && i+1 < len(args); i++ {
			if n := sig.Params().At(i).Name(); n != "" {
				vars[n] = args[i+1]
			}
		}
	}
	vars["recv"] = args[0]
	for i, r := range res {
		vars[fmt.Sprintf("result%d", i)] = r
	}
	if len(res) == 1 {
		vars["result"] = res[0]
	}
	sc := &SpecCtx{st: st, vars: vars, old: pre, where: "spec of " + kind}
	for _, en := range c.Ensures {
		st.assume(e.evalClause(sc, en))
	}
}

// debugRef records source-level names for specification expressions.
// isLocalVar: does the debug reference name a local variable, parameter or named result?
func isLocalVar(x *ssa.DebugRef) bool {
	v, ok := x.Object().(*types.Var)
	if !ok || v.IsField() {
		return false
	}
	return v.Pkg() == nil || v.Parent() != v.Pkg().Scope()
}

func (st *State) debugRef(fr *Frame, x *ssa.DebugRef) {
	id, ok := x.Expr.(*ast.Ident)
	if !ok {
		return
	}
	if id.Name == "_" || !isLocalVar(x) {
		return // fields, package-level objects and functions are not locals: a contract must not pick them up by name
	}
	v, ok := fr.env[x.X]
	if !ok {
		switch x.X.(type) {
		case *ssa.Const, *ssa.Function, *ssa.Global, *ssa.FreeVar, *ssa.Parameter:
			v = st.val(fr, x.X)
		default:
			return
		}
	}
	if x.IsAddr {
		if fr.specAddrs == nil {
			fr.specAddrs = map[string]*Ptr{}
		}
		if v.P != nil || len(v.C) == 1 {
			if _, isPtr := v.T.Underlying().(*types.Pointer); isPtr {
				p := st.asPtr(v)
				if p.Kind == PObj || p.Kind == PElem {
					fr.specAddrs[id.Name] = p
				}
			}
		}
		return
	}
	if strings.HasPrefix(id.Name, "$") {
		return
	}
	if fr.cellVars[id.Name] {
		return // an address-taken local keeps denoting the content of its cell
	}
	for _, fv := range fr.fn.FreeVars {
		if fv.Name() == id.Name {
			return // in contracts a captured variable keeps denoting its cell
		}
	}
	for _, p := range fr.fn.Params {
		if p.Name() == id.Name {
			return // parameters denote their entry values
		}
	}
	fr.specVars[id.Name] = v
	delete(fr.specAddrs, id.Name)
}

// declareReplayTerms names the pre-state terms whose model values instantiate the replay driver.
func (st *State) declareReplayTerms(fr *Frame, name string, c *Contract) {
	e := st.e
	sc := st.specCtx(fr, name+" replay")
	for _, kv := range splitTopLevel(c.Flags["replay_terms"]) {
		i := strings.Index(kv, "=")
		if i <= 0 {
			continue
		}
		k, src := strings.TrimSpace(kv[:i]), strings.TrimSpace(kv[i+1:])
		if strings.HasSuffix(k, ":") {
			// name:=literal is passed to the driver verbatim
			e.replayConsts[name+"\x00"+strings.TrimSuffix(k, ":")] = src
			continue
		}
		ex, err := parseSpecExpr(src)
		if err != nil {
			e.unsupportedf("replay term %s: %v", k, err)
		}
		var v Val
		func() {
			defer func() {
				if r := recover(); r != nil {
					if se, ok := r.(specErr); ok {
						e.unsupportedf("replay term %s: %s", k, se.msg)
					}
					panic(r)
				}
			}()
			v = sc.eval(ex)
		}()
		comps := e.flatten(v.T)
		for j, t := range v.C {
			nm := k
			if len(v.C) > 1 && j < len(comps) {
				nm = k + comps[j].Path
			}
			sort := "Int"
			if j < len(comps) {
				sort = smtSort(comps[j].Sort)
			}
			cn := q("rv!" + nm)
			st.decl(fmt.Sprintf("(define-fun %s () %s %s)", cn, sort, t))
			e.replayTerms[name] = append(e.replayTerms[name], ReplayTerm{Name: nm, Term: cn})
		}
	}
}

// splitTopLevel splits "a=expr b=expr" at spaces that precede "<ident>=" (not "==").
func splitTopLevel(s string) []string {
	var out []string
	fields := strings.Fields(s)
	cur := ""
	for _, f := range fields {
		i := strings.Index(f, "=")
		isStart := i > 0 && !strings.HasPrefix(f[i:], "==") && isIdent(strings.TrimSuffix(f[:i], ":"))
		if isStart && cur != "" {
			out = append(out, cur)
			cur = ""
		}
		if cur != "" {
			cur += " "
		}
		cur += f
	}
	if cur != "" {
		out = append(out, cur)
	}
	return out
}

func isIdent(s string) bool {
	for i, r := range s {
		if !(r == '_' || r == '.' || (r >= 'a' && r <= 'z') || (r >= 'A' && r <= 'Z') || (i > 0 && r >= '0' && r <= '9')) {
			return false
		}
	}
	return s != ""
}
