package main

import (
	"encoding/json"
	"go/ast"
	"os"
	"path/filepath"

	"golang.org/x/tools/go/ssa"
)

// Contracts name local variables (loop counters, accumulators) in loop invariants. A harmless rename of such a
// local must not break the check: when a name used by a contract is not found, it is re-bound by position. For
// every function verified on the pinned tree, --update-expected records the ordered list of its named locals
// (/verif/symbols.json); a name that disappeared is mapped to the new name at the same position between the
// nearest unchanged neighbours.

// localNames lists the named locals of a function in order of first appearance in its SSA form.
func localNames(fn *ssa.Function) []string {
	seen := map[string]bool{}
	var out []string
	add := func(n string) {
		if n == "" || n == "_" || seen[n] {
			return
		}
		switch n {
		case "complit", "varargs", "slicelit", "rangeindex", "rangeiter", "makeslice", "makemap", "new", "nil":
			return
		}
		seen[n] = true
		out = append(out, n)
	}
	for _, p := range fn.Params {
		add(p.Name())
	}
	for _, b := range fn.Blocks {
		for _, in := range b.Instrs {
			switch x := in.(type) {
			case *ssa.Alloc:
				add(x.Comment)
			case *ssa.Phi:
				add(x.Comment)
			case *ssa.DebugRef:
				if id, ok := x.Expr.(*ast.Ident); ok && isLocalVar(x) {
					add(id.Name)
				}
			}
		}
	}
	return out
}

func loadSymbols(verif string) map[string][]string {
	m := map[string][]string{}
	if b, err := os.ReadFile(filepath.Join(verif, "symbols.json")); err == nil {
		_ = json.Unmarshal(b, &m)
	}
	return m
}

func (e *Engine) saveSymbols(verif string) {
	m := map[string][]string{}
	for n, fn := range e.P.Funcs {
		if l := localNames(fn); len(l) > 0 {
			m[n] = l
		}
	}
	b, _ := json.MarshalIndent(m, "", " ")
	_ = os.WriteFile(filepath.Join(verif, "symbols.json"), append(b, '\n'), 0o644)
}

// renamed returns the current name of a local that the pinned tree called `old` in function fnName, or "".
func (e *Engine) renamed(fnName, old string) string {
	if e.symbols == nil {
		return ""
	}
	was, ok := e.symbols[fnName]
	if !ok {
		return ""
	}
	fn := e.P.Funcs[fnName]
	if fn == nil {
		return ""
	}
	now := localNames(fn)
	nowSet := map[string]bool{}
	for _, n := range now {
		nowSet[n] = true
	}
	wasSet := map[string]bool{}
	for _, n := range was {
		wasSet[n] = true
	}
	if nowSet[old] || !wasSet[old] {
		return ""
	}
	// names that vanished / appeared, in order; between the same unchanged neighbours the k-th vanished name
	// corresponds to the k-th new name when their numbers agree
	type seg struct{ gone, fresh []string }
	segOf := func(list []string, other map[string]bool) map[string][]string {
		out := map[string][]string{}
		anchor := "^"
		for _, n := range list {
			if other[n] {
				anchor = n
				continue
			}
			out[anchor] = append(out[anchor], n)
		}
		return out
	}
	gone := segOf(was, nowSet)
	fresh := segOf(now, wasSet)
	for anchor, g := range gone {
		for k, n := range g {
			if n == old {
				f := fresh[anchor]
				if len(f) == len(g) {
					return f[k]
				}
				return ""
			}
		}
	}
	return ""
}
