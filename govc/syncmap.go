package main

import (
	"fmt"
	"go/token"
	"go/types"

	"golang.org/x/tools/go/ssa"
)

// Model of sync.Map (assumed contract, DESIGN.md section 3): a linearizable map from interface keys to
// interface values. State: SM|dom, SM|vtag, SM|vval indexed by the map object and pair(keytag, keyval).

const (
	smDom  = "SM|dom"
	smVTag = "SM|vtag"
	smVVal = "SM|vval"
)

func smKey(k Val) string { return fmt.Sprintf("(pair %s %s)", k.C[0], k.C[1]) }

func (st *State) smID(m Val) string { return st.ptrTerm(st.asPtr(m)) }

func (st *State) smArrs() (string, string, string) {
	st.e.refArr[smVVal] = true
	return st.arr(smDom, "(Array Int (Array Int Bool))"), st.arr(smVTag, arr2Sort(SInt)), st.arr(smVVal, arr2Sort(SInt))
}

func (st *State) smLoad(m Val, k Val) (ok string, v Val) {
	d, vt, vv := st.smArrs()
	id, kt := st.smID(m), smKey(k)
	ok = sel(sel(d, id), kt)
	anyT := types.NewInterfaceType(nil, nil)
	v = Val{T: anyT, C: []string{ite(ok, sel(sel(vt, id), kt), "0"), ite(ok, sel(sel(vv, id), kt), "0")}}
	return
}

func (st *State) smStore(m Val, k, v Val) {
	st.written[smDom] = true
	st.publish(v, "")
	d, vt, vv := st.smArrs()
	id, kt := st.smID(m), smKey(k)
	st.setArr(smDom, "(Array Int (Array Int Bool))", store(d, id, store(sel(d, id), kt, "true")))
	st.setArr(smVTag, arr2Sort(SInt), store(vt, id, store(sel(vt, id), kt, v.C[0])))
	st.setArr(smVVal, arr2Sort(SInt), store(vv, id, store(sel(vv, id), kt, v.C[1])))
}

func (st *State) smDelete(m Val, k Val) {
	st.written[smDom] = true
	d, _, _ := st.smArrs()
	id, kt := st.smID(m), smKey(k)
	st.countRemoval(sel(sel(d, id), kt))
	st.setArr(smDom, "(Array Int (Array Int Bool))", store(d, id, store(sel(d, id), kt, "false")))
}

type rangeRet struct {
	id     string
	spec   *LoopSpec
	caller *ssa.Function
	pos    token.Pos
	ord    int
}

func (e *Engine) rangeOrdinal(fn *ssa.Function, at ssa.Instruction) int {
	n := 0
	for _, b := range fn.Blocks {
		for _, in := range b.Instrs {
			if c, ok := in.(*ssa.Call); ok {
				if f, ok := c.Call.Value.(*ssa.Function); ok && f.String() == "(*sync.Map).Range" {
					n++
					if in == at {
						return n
					}
				}
			}
		}
	}
	return 0
}

func (st *State) evalRangeInv(fr *Frame, rr *rangeRet, kind string, assert bool) {
	if rr.spec == nil {
		return
	}
	e := st.e
	fnName := fr.fn.RelString(e.P.TPkg)
	fr.specVars["$iter"] = Val{It: &Iter{ID: rr.id}}
	for i, inv := range rr.spec.Invariants {
		sc := st.specCtx(fr, fmt.Sprintf("%s range %d invariant %s", fnName, rr.ord, inv.Label))
		t := e.evalClause(sc, inv)
		label := inv.Label
		if label == "" {
			label = fmt.Sprintf("inv%d", i+1)
		}
		if assert {
			st.oblige(kind, fmt.Sprintf("%s@%s.range%d", label, fnName, rr.ord), inv.Props, t, rr.pos)
		} else {
			st.assume(t)
		}
	}
}

// modelSyncMapRange: Range(f) calls f once for every key present; cut like a loop with the declared invariants.
func modelSyncMapRange(st *State, fr *Frame, fn *ssa.Function, a []Val, pos token.Pos) (*Val, bool) {
	e := st.e
	m, f := a[0], a[1]
	if f.F == nil {
		if fv, ok := st.funcs[f.C[0]]; ok {
			f.F = fv
		}
	}
	if f.F == nil {
		e.unsupportedf("sync.Map.Range with a non-static callback")
	}
	at := fr.block.Instrs[fr.idx-1]
	ord := e.rangeOrdinal(fr.fn, at)
	fnName := fr.fn.RelString(e.P.TPkg)
	rr := &rangeRet{id: fmt.Sprintf("%s.range%d", fnName, ord), caller: fr.fn, pos: pos, ord: ord}
	if fr.contract != nil {
		rr.spec = fr.contract.Ranges[ord]
	}
	visName := "G|it|" + rr.id + "|visited"
	st.setArr(visName, "(Array Int Bool)", "((as const (Array Int Bool)) false)")
	cntName := "G|it|" + rr.id + "|count" // ghost: number of keys visited so far (visitedCount() in specs)
	st.setArr(cntName, "Int", "0")
	st.evalRangeInv(fr, rr, "inv-init", true)
	// havoc what the callback may change
	allocs := false
	st.loopHavoc = true
	for _, p := range e.fnWriteSet(f.F.Fn) {
		if p == allocName {
			allocs = true
			continue
		}
		st.havoc(p)
	}
	st.loopHavoc = false
	if allocs {
		st.bumpAlloc()
	}
	st.havoc(visName)
	st.havoc(cntName)
	if rr.spec != nil {
		for _, g := range rr.spec.Ghosts {
			st.havoc("G|u|" + g.Name)
		}
	}
	st.evalRangeInv(fr, rr, "", false)
	d, vt, vv := st.smArrs()
	id := st.smID(m)
	vis := st.arr(visName, "(Array Int Bool)")
	// exhausted
	done := st.fork()
	done.assume(fmt.Sprintf("(forall ((k Int)) (! (=> (select (select %s %s) k) (select %s k)) :pattern ((select %s k)) :pattern ((select (select %s %s) k))))", d, id, vis, vis, d, id))
	done.path = append(done.path, fmt.Sprintf("%s.range%d:done", fnShort(fr.fn), ord))
	// another key
	kt := st.fresh("smk", SInt)
	ktag, kval := st.fresh("smk.tag", SInt), st.fresh("smk.val", SInt)
	st.assume(and(eq(kt, fmt.Sprintf("(pair %s %s)", ktag, kval)), fmt.Sprintf("(> %s 0)", ktag), sel(sel(d, id), kt), not(sel(vis, kt))))
	st.setArr(visName, "(Array Int Bool)", store(vis, kt, "true"))
	st.countIteration()
	{
		n := st.arr(cntName, "Int")
		st.assume(fmt.Sprintf("(and (>= %s 0) (< %s 281474976710656))", n, n)) // a map holds fewer than 2^48 keys
		st.setArr(cntName, "Int", fmt.Sprintf("(+ %s 1)", n))
	}
	anyT := types.NewInterfaceType(nil, nil)
	key := Val{T: anyT, C: []string{ktag, kval}}
	val := Val{T: anyT, C: []string{sel(sel(vt, id), kt), sel(sel(vv, id), kt)}}
	st.assumeLoaded(val)
	fr.specVars["$key"] = key
	st.path = append(st.path, fmt.Sprintf("%s.range%d:next", fnShort(fr.fn), ord))
	nf := st.pushFrame(f.F.Fn, []Val{key, val}, f.F.Bindings, nil)
	nf.rangeRet = rr
	e.assumeUsed("sync.Map: linearizable map; Range(f) calls f once for each key present throughout the call (sequential contract)")
	return nil, true
}

// rangeReturn handles the return of a Range callback.
func (st *State) rangeReturn(fr *Frame, res []Val) bool {
	rr := fr.rangeRet
	caller := st.top()
	r := res[0].C[0]
	cont := func(s *State) bool {
		// callback returned true: next iteration -> the invariant must hold again; path ends
		if rr.spec != nil {
			cfr := s.top()
			for _, g := range rr.spec.Ghosts {
				sc := s.specCtx(cfr, fmt.Sprintf("range %d ghost %s", rr.ord, g.Name))
				idx, val := sc.eval(g.Index.Expr), sc.eval(g.Value.Expr)
				nm := "G|u|" + g.Name
				arr := s.arr(nm, "(Array Int Int)")
				s.setArr(nm, "(Array Int Int)", store(arr, idx.C[0], val.C[0]))
			}
		}
		s.evalRangeInv(s.top(), rr, "inv-preserve", true)
		return false
	}
	_ = caller
	switch r {
	case "true":
		return cont(st)
	case "false":
		return true // Range stops early: continue after the call
	}
	other := st.fork()
	other.assume(not(r))
	other.path = append(other.path, "range:stop")
	st.assume(r)
	return cont(st)
}

func init() {
	models["(*sync.Map).Load"] = func(st *State, fr *Frame, fn *ssa.Function, a []Val, pos token.Pos) (*Val, bool) {
		st.smOps++
		ok, v := st.smLoad(a[0], a[1])
		st.assumeLoaded(v)
		return rv(Val{C: []string{v.C[0], v.C[1], ok}})
	}
	models["(*sync.Map).Store"] = func(st *State, fr *Frame, fn *ssa.Function, a []Val, pos token.Pos) (*Val, bool) {
		st.smOps++
		st.smStore(a[0], a[1], a[2])
		return nil, true
	}
	models["(*sync.Map).Delete"] = func(st *State, fr *Frame, fn *ssa.Function, a []Val, pos token.Pos) (*Val, bool) {
		st.smOps++
		st.smDelete(a[0], a[1])
		return nil, true
	}
	models["(*sync.Map).LoadAndDelete"] = func(st *State, fr *Frame, fn *ssa.Function, a []Val, pos token.Pos) (*Val, bool) {
		st.smOps++
		ok, v := st.smLoad(a[0], a[1])
		st.assumeLoaded(v)
		st.smDelete(a[0], a[1])
		return rv(Val{C: []string{v.C[0], v.C[1], ok}})
	}
	models["(*sync.Map).Range"] = modelSyncMapRange
}
