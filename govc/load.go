package main

import (
	"fmt"
	"go/types"
	"os"
	"sort"
	"strings"

	"golang.org/x/tools/go/packages"
	"golang.org/x/tools/go/ssa"
	"golang.org/x/tools/go/ssa/ssautil"
)

// Program is the loaded repository: type-checked packages and SSA of the working tree.
type Program struct {
	selfInsts map[*types.Named]types.Type
	Prog      *ssa.Program
	Pkg       *ssa.Package
	TPkg      *types.Package
	PPkg      *packages.Package
	Funcs     map[string]*ssa.Function // by RelString name, including anonymous functions
}

func loadRepo(dir string) (*Program, error) {
	cfg := &packages.Config{
		Mode:       packages.LoadAllSyntax,
		Dir:        dir,
		BuildFlags: []string{"-tags=verif"},
		Env:        append(os.Environ(), "GOFLAGS=-mod=mod", "GOPROXY=off", "GOSUMDB=off", "GOTOOLCHAIN=local"),
	}
	pkgs, err := packages.Load(cfg, ".")
	if err != nil {
		return nil, err
	}
	if len(pkgs) != 1 {
		return nil, fmt.Errorf("expected 1 package, got %d", len(pkgs))
	}
	if len(pkgs[0].Errors) > 0 {
		return nil, fmt.Errorf("package errors: %v", pkgs[0].Errors)
	}
	prog, spkgs := ssautil.AllPackages(pkgs, ssa.GlobalDebug)
	prog.Build()
	p := &Program{Prog: prog, Pkg: spkgs[0], TPkg: pkgs[0].Types, PPkg: pkgs[0], Funcs: map[string]*ssa.Function{}}
	var add func(f *ssa.Function)
	add = func(f *ssa.Function) {
		if f == nil {
			return
		}
		name := f.RelString(p.TPkg)
		if _, ok := p.Funcs[name]; ok {
			return
		}
		p.Funcs[name] = f
		for _, a := range f.AnonFuncs {
			add(a)
		}
	}
	for _, m := range p.Pkg.Members {
		switch m := m.(type) {
		case *ssa.Function:
			add(m)
		case *ssa.Type:
			nt, ok := m.Type().(*types.Named)
			if !ok {
				continue
			}
			for i := 0; i < nt.NumMethods(); i++ {
				add(prog.FuncValue(nt.Method(i)))
			}
			// pointer-receiver wrappers of value-receiver methods (what a call through an interface holding *T runs)
			if nt.TypeParams().Len() == 0 {
				ms := prog.MethodSets.MethodSet(types.NewPointer(nt))
				for i := 0; i < ms.Len(); i++ {
					if f := prog.MethodValue(ms.At(i)); f != nil && f.Synthetic != "" {
						add(f)
					}
				}
			}
		}
	}
	return p, nil
}

func (p *Program) funcNames() []string {
	var ns []string
	for n := range p.Funcs {
		ns = append(ns, n)
	}
	sort.Strings(ns)
	return ns
}

// relType renders a type relative to the package under verification.
func (p *Program) relType(t types.Type) string {
	return types.TypeString(p.canonT(t), types.RelativeTo(p.TPkg))
}

// canonT maps an instantiation of one of the package's generic types with concrete type arguments
// (ShardedMapOf[error]) to the generic type itself: the generic code is verified once, with the type parameter
// as an uninterpreted one-leaf type, and objects of every instantiation live in that layout.
// selfInst: the generic type instantiated with its own type parameters (prints as ShardedMapOf[V]).
func (p *Program) selfInst(g *types.Named) types.Type {
	if p.selfInsts == nil {
		p.selfInsts = map[*types.Named]types.Type{}
	}
	if t, ok := p.selfInsts[g]; ok {
		return t
	}
	var targs []types.Type
	for i := 0; i < g.TypeParams().Len(); i++ {
		targs = append(targs, g.TypeParams().At(i))
	}
	t, err := types.Instantiate(nil, g, targs, false)
	if err != nil {
		t = g
	}
	p.selfInsts[g] = t
	return t
}

func (p *Program) canonT(t types.Type) types.Type {
	switch x := t.(type) {
	case *types.Named:
		if x.TypeArgs().Len() > 0 && x.Obj().Pkg() == p.TPkg {
			for i := 0; i < x.TypeArgs().Len(); i++ {
				if _, ok := x.TypeArgs().At(i).(*types.TypeParam); !ok {
					return p.selfInst(x.Origin())
				}
			}
		}
	case *types.Pointer:
		if c := p.canonT(x.Elem()); c != x.Elem() {
			return types.NewPointer(c)
		}
	}
	return t
}

func isPkgFunc(p *Program, f *ssa.Function) bool {
	if f == nil {
		return false
	}
	if f.Pkg == p.Pkg {
		return true
	}
	// methods of generic types / anonymous funcs: walk parents / origin
	if f.Parent() != nil {
		return isPkgFunc(p, f.Parent())
	}
	if f.Origin() != nil {
		return isPkgFunc(p, f.Origin())
	}
	if f.Object() != nil && f.Object().Pkg() == p.TPkg {
		return true
	}
	return false
}

func shortPos(p *Program, pos interface{ IsValid() bool }) string { return "" }

func sanitize(s string) string {
	r := strings.NewReplacer("|", "!", "\\", "!", "\n", " ")
	return r.Replace(s)
}
