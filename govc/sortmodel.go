package main

import (
	"fmt"
	"go/token"
	"go/types"
	"sort"
	"strings"

	"golang.org/x/tools/go/ssa"
)

// sort.Slice(x, less), assumed contract: the elements of x are permuted (a bijection perm on [0,n): the element
// at index j afterwards is the one that was at perm(j)), nothing else changes, and afterwards no pair is out of
// order: for i < j, less(j, i) is false. "less" is not modelled: the REAL comparator closure is executed once
// symbolically on two arbitrary indices, and its result term is quantified over all index pairs.
func modelSortSlice(st *State, fr *Frame, fn *ssa.Function, a []Val, pos token.Pos) (*Val, bool) {
	e := st.e
	x, less := a[0], a[1]
	var id int
	if _, err := fmt.Sscanf(x.C[0], "%d", &id); err != nil || strings.HasPrefix(x.C[0], "(") {
		e.unsupportedf("sort.Slice on a value of unknown dynamic type")
	}
	sliceT, ok := e.tagTypes[id]
	if !ok || sliceT == nil {
		e.unsupportedf("sort.Slice: unknown type tag")
	}
	sl, ok := sliceT.Underlying().(*types.Slice)
	if !ok {
		e.unsupportedf("sort.Slice on a non-slice")
	}
	et := sl.Elem()
	if _, isStruct := et.Underlying().(*types.Struct); !isStruct || isTimeTime(et) {
		e.unsupportedf("sort.Slice: only slices of structs are modelled")
	}
	if less.F == nil {
		if fv, ok := st.funcs[less.C[0]]; ok {
			less.F = fv
		}
	}
	if less.F == nil {
		e.unsupportedf("sort.Slice with a non-static comparator")
	}
	sv := st.unbox(x.C[1], sliceT)
	base, off, n := sv.C[0], sv.C[1], sv.C[2]
	e.counter++
	k := e.counter
	perm, inv := fmt.Sprintf("|sortperm!%d|", k), fmt.Sprintf("|sortinv!%d|", k)
	st.decl(fmt.Sprintf("(declare-fun %s (Int) Int)", perm))
	st.decl(fmt.Sprintf("(declare-fun %s (Int) Int)", inv))
	ax1 := fmt.Sprintf("(forall ((j Int)) (! (=> (and (<= 0 j) (< j %s)) (and (<= 0 (%s j)) (< (%s j) %s) (= (%s (%s j)) j))) :pattern ((%s j))))", n, perm, perm, n, inv, perm, perm)
	ax2 := fmt.Sprintf("(forall ((j Int)) (! (=> (and (<= 0 j) (< j %s)) (and (<= 0 (%s j)) (< (%s j) %s) (= (%s (%s j)) j))) :pattern ((%s j))))", n, inv, inv, n, perm, inv, inv)
	st.assume(ax1)
	st.assume(ax2)
	root := func(j string) string { return fmt.Sprintf("(el %s (slot %s %s))", base, off, j) }
	for _, c := range e.flatten(et) {
		name := heapName(e, et, c.Path)
		e.noteRef(name, c)
		srt := arrSort(c.Sort)
		old := st.arr(name, srt)
		nw := st.freshSort("sorted"+sanitize(c.Path), srt)
		st.assume(fmt.Sprintf("(forall ((j Int)) (! (=> (and (<= 0 j) (< j %s)) (= (select %s %s) (select %s %s))) :pattern ((select %s %s))))",
			n, nw, root("j"), old, root("("+perm+" j)"), nw, root("j")))
		st.assume(fmt.Sprintf("(forall ((x Int)) (! (=> (not (and (= (el_base x) %s) (<= (slot %s 0) (el_idx x)) (< (el_idx x) (slot %s %s)))) (= (select %s x) (select %s x))) :pattern ((select %s x))))",
			base, off, off, n, nw, old, nw))
		st.setArr(name, srt, nw)
		st.written[name] = true
	}
	// order: run the real comparator on two arbitrary indices and quantify its verdict
	i0, j0 := st.fresh("sorti", SInt), st.fresh("sortj", SInt)
	st.assume(fmt.Sprintf("(and (<= 0 %s) (< %s %s) (<= 0 %s) (< %s %s))", i0, i0, n, j0, j0, n))
	intT := types.Typ[types.Int]
	res := st.runSync(less.F, []Val{{T: intT, C: []string{i0}}, {T: intT, C: []string{j0}}}, "sort.Slice")
	if len(res) != 1 || len(res[0].C) != 1 {
		e.unsupportedf("sort.Slice: comparator result")
	}
	l := res[0].C[0]
	gen := strings.ReplaceAll(strings.ReplaceAll(l, i0, "sb"), j0, "sa") // less(b, a) for a < b must be false
	st.assume(fmt.Sprintf("(forall ((sa Int) (sb Int)) (=> (and (<= 0 sa) (< sa sb) (< sb %s)) (not %s)))", n, gen))
	st.lastSortPerm, st.lastSortInv = perm, inv
	e.assumeUsed("sort.Slice (assumed): permutes the elements of the slice, touches nothing else, and leaves no pair out of order with respect to the comparator (which is executed symbolically, not modelled)")
	return nil, true
}

func init() {
	// sortPerm(j): the index before the most recent sort.Slice of the element that is at index j after it;
	// sortInv(p): the index after the sort of the element that was at index p before it
	specFuncs["sortPerm"] = func(sc *SpecCtx, x *SExpr) Val {
		if sc.st.lastSortPerm == "" {
			sc.fail("sortPerm: no sort.Slice executed on this path")
		}
		return Val{T: tInt, C: []string{fmt.Sprintf("(%s %s)", sc.st.lastSortPerm, sc.eval(x.Args[0]).C[0])}}
	}
	// isFunc(f, "name"): the function value f is statically known to be the function / closure of that name
	specFuncs["isFunc"] = func(sc *SpecCtx, x *SExpr) Val {
		f := sc.eval(x.Args[0])
		if x.Args[1].Op != "str" {
			sc.fail("isFunc: second argument is a function name in quotes")
		}
		fv := f.F
		if fv == nil && len(f.C) == 1 {
			fv = sc.st.funcs[f.C[0]]
		}
		if fv == nil && len(f.C) == 1 {
			// a function value read back from memory: it is the named function iff it equals one of the closures
			// of that function created on this path
			var alts []string
			for id, cand := range sc.st.funcs {
				if cand.Fn.RelString(sc.st.e.P.TPkg) == x.Args[1].Name {
					alts = append(alts, eq(f.C[0], id))
				}
			}
			sort.Strings(alts)
			if len(alts) == 0 {
				return mkBool("false")
			}
			return mkBool(or(alts...))
		}
		if fv == nil {
			sc.fail("isFunc: not a statically known function value")
		}
		return mkBool(map[bool]string{true: "true", false: "false"}[fv.Fn.RelString(sc.st.e.P.TPkg) == x.Args[1].Name])
	}
	// boundRecv(f, "(T).m"): the receiver the method value f was bound to (f must be a method value of that method)
	specFuncs["boundRecv"] = func(sc *SpecCtx, x *SExpr) Val {
		f := sc.eval(x.Args[0])
		if x.Args[1].Op != "str" {
			sc.fail("boundRecv: second argument is a method name in quotes")
		}
		fv := f.F
		if fv == nil && len(f.C) == 1 {
			fv = sc.st.funcs[f.C[0]]
		}
		if fv == nil && len(f.C) == 1 {
			// read back from memory: the receiver of whichever method value of that method (created on this path) f
			// equals; all-zero components if it equals none of them
			var cands []string
			for id, cand := range sc.st.funcs {
				if len(cand.Bindings) == 1 && cand.Fn.RelString(sc.st.e.P.TPkg) == x.Args[1].Name+"$bound" {
					cands = append(cands, id)
				}
			}
			sort.Strings(cands)
			if len(cands) == 0 {
				sc.fail("boundRecv: no method value of %s on this path", x.Args[1].Name)
			}
			first := sc.st.funcs[cands[0]].Bindings[0]
			out := Val{T: first.T, C: make([]string, len(first.C))}
			zero := sc.st.e.zero(first.T)
			for k := range out.C {
				out.C[k] = zero.C[k]
				for _, id := range cands {
					out.C[k] = ite(eq(f.C[0], id), sc.st.funcs[id].Bindings[0].C[k], out.C[k])
				}
			}
			return out
		}
		if fv == nil || len(fv.Bindings) != 1 || fv.Fn.RelString(sc.st.e.P.TPkg) != x.Args[1].Name+"$bound" {
			sc.fail("boundRecv: not a method value of %s", x.Args[1].Name)
		}
		return fv.Bindings[0]
	}
	// isBound(f, "(*T).m", recv): f is the method value recv.m
	specFuncs["isBound"] = func(sc *SpecCtx, x *SExpr) Val {
		f := sc.eval(x.Args[0])
		if x.Args[1].Op != "str" {
			sc.fail("isBound: second argument is a method name in quotes")
		}
		recv := sc.eval(x.Args[2])
		fv := f.F
		if fv == nil && len(f.C) == 1 {
			fv = sc.st.funcs[f.C[0]]
		}
		if fv == nil && len(f.C) == 1 {
			// read back from memory: equal to one of the method values of that method created on this path
			var alts []string
			for id, cand := range sc.st.funcs {
				if len(cand.Bindings) == 1 && cand.Fn.RelString(sc.st.e.P.TPkg) == x.Args[1].Name+"$bound" {
					alts = append(alts, and(eq(f.C[0], id), eq(cand.Bindings[0].C[0], recv.C[0])))
				}
			}
			sort.Strings(alts)
			if len(alts) == 0 {
				return mkBool("false")
			}
			return mkBool(or(alts...))
		}
		if fv == nil || len(fv.Bindings) != 1 || fv.Fn.RelString(sc.st.e.P.TPkg) != x.Args[1].Name+"$bound" {
			return mkBool("false")
		}
		return mkBool(eq(fv.Bindings[0].C[0], recv.C[0]))
	}
	specFuncs["sortInv"] = func(sc *SpecCtx, x *SExpr) Val {
		if sc.st.lastSortInv == "" {
			sc.fail("sortInv: no sort.Slice executed on this path")
		}
		return Val{T: tInt, C: []string{fmt.Sprintf("(%s %s)", sc.st.lastSortInv, sc.eval(x.Args[0]).C[0])}}
	}
}
