package main

import (
	"fmt"
	"go/token"

	"golang.org/x/tools/go/ssa"
)

// What http.go uses from net/http and net/url (C14, gating of the transfer):
// r.URL.Query().Get(k) is an uninterpreted function of the URL object and the key; http.Error is a logged
// call-out (kind "http.Error": writer, message, status code).

func init() {
	models["(*net/url.URL).Query"] = func(st *State, fr *Frame, fn *ssa.Function, a []Val, pos token.Pos) (*Val, bool) {
		st.e.assumeUsed("net/url (assumed): URL.Query().Get(k) is a function of the URL object and k")
		return rv(Val{C: []string{fmt.Sprintf("(qvals %s)", a[0].C[0])}})
	}
	models["(net/url.Values).Get"] = func(st *State, fr *Frame, fn *ssa.Function, a []Val, pos token.Pos) (*Val, bool) {
		return rv(Val{C: []string{fmt.Sprintf("(qget %s %s)", a[0].C[0], a[1].C[0])}})
	}
	models["net/http.Error"] = func(st *State, fr *Frame, fn *ssa.Function, a []Val, pos token.Pos) (*Val, bool) {
		fv := Val{T: fn.Signature, C: []string{st.e.funcID(fn)}}
		st.callOut(fr, nil, "http.Error", fn.Signature, append([]Val{fv}, a...), pos)
		return nil, true
	}
	models["net/url.Parse"] = func(st *State, fr *Frame, fn *ssa.Function, a []Val, pos token.Pos) (*Val, bool) {
		// (u, nil) with a fresh non-nil URL, or (nil, err)
		errT := fn.Signature.Results().At(1).Type()
		err := st.freshVal("url.err", errT)
		u := st.newRef("url")
		return rv(Val{C: []string{ite(eq(err.C[0], "0"), u, "0"), err.C[0], err.C[1]}})
	}
	specFuncs["fmtuint"] = func(sc *SpecCtx, x *SExpr) Val { // fmtuint(v, base): strconv.FormatUint(v, base)
		v, b := sc.eval(x.Args[0]), sc.eval(x.Args[1])
		return mkStr(fmt.Sprintf("(fmtuint %s %s)", v.C[0], b.C[0]))
	}
	specFuncs["urlGet"] = func(sc *SpecCtx, x *SExpr) Val { // urlGet(u, k): u.Query().Get(k)
		u, k := sc.eval(x.Args[0]), sc.eval(x.Args[1])
		return mkStr(fmt.Sprintf("(qget (qvals %s) %s)", u.C[0], k.C[0]))
	}
}
