package main

import (
	"fmt"
	"go/token"
	"go/types"

	"golang.org/x/tools/go/ssa"
)

// What http.go uses from net/http and net/url (C14: gating of the transfer, and which cache a request names).
//
// A query string is an abstract value: parseq(s) is the parsed form of the string s, qget(q, k) the first value of
// key k (what Values.Get returns), qset / qadd the effect of Values.Set / Values.Add, qenc(q) the encoded string;
// parsing an encoded query gives the same first values back. A url.Values object is a reference whose abstract
// value lives in the ghost array G|q|state. URL.Query() parses the URL's RawQuery field; URL.String() is a string
// whose query part (rawq) is that field; http.NewRequest parses its URL argument into a fresh URL object.
// http.Error is a logged call-out (kind "http.Error": writer, message, status code).

const qStateName = "G|q|state"

func (st *State) fieldPtrOf(obj Val, elem types.Type, name string) *Ptr {
	p := st.asPtr(obj)
	stt, ok := st.e.P.canonT(elem).Underlying().(*types.Struct)
	if !ok {
		st.e.unsupportedf("field %s of non-struct %s", name, elem)
	}
	_, f := findField(stt, name)
	if f == nil {
		st.e.unsupportedf("no field %s in %s", name, elem)
	}
	return &Ptr{Kind: PObj, Root: p.Root, RootT: p.RootT, Path: p.Path + "." + f.Name(), T: f.Type()}
}

func pointee(t types.Type) types.Type {
	if pt, ok := t.Underlying().(*types.Pointer); ok {
		return pt.Elem()
	}
	return t
}

func init() {
	assumed := func(st *State) {
		st.e.assumeUsed("net/url, net/http (assumed): URL.Query() parses the RawQuery field; Values.Get returns the first value of a key; Set replaces and Add appends; parsing Values.Encode() gives the same values back; URL.String() carries RawQuery as its query part and http.NewRequest parses it into the request's URL")
	}
	models["(*net/url.URL).Query"] = func(st *State, fr *Frame, fn *ssa.Function, a []Val, pos token.Pos) (*Val, bool) {
		assumed(st)
		raw := st.loadPtrQuiet(st.fieldPtrOf(a[0], pointee(fn.Signature.Recv().Type()), "RawQuery"))
		m := st.newRef("values")
		qs := st.arr(qStateName, "(Array Int Int)")
		st.setArr(qStateName, "(Array Int Int)", store(qs, m, fmt.Sprintf("(parseq %s)", raw.C[0])))
		return rv(Val{C: []string{m}})
	}
	models["(net/url.Values).Get"] = func(st *State, fr *Frame, fn *ssa.Function, a []Val, pos token.Pos) (*Val, bool) {
		qs := st.arr(qStateName, "(Array Int Int)")
		return rv(Val{C: []string{fmt.Sprintf("(qget %s %s)", sel(qs, a[0].C[0]), a[1].C[0])}})
	}
	upd := func(op string) modelFn {
		return func(st *State, fr *Frame, fn *ssa.Function, a []Val, pos token.Pos) (*Val, bool) {
			assumed(st)
			st.oblige("safety", "map-nil", st.e.curProps, not(eq(a[0].C[0], "0")), pos)
			qs := st.arr(qStateName, "(Array Int Int)")
			st.setArr(qStateName, "(Array Int Int)", store(qs, a[0].C[0], fmt.Sprintf("(%s %s %s %s)", op, sel(qs, a[0].C[0]), a[1].C[0], a[2].C[0])))
			return nil, true
		}
	}
	models["(net/url.Values).Set"] = upd("qset")
	models["(net/url.Values).Add"] = upd("qadd")
	models["(net/url.Values).Encode"] = func(st *State, fr *Frame, fn *ssa.Function, a []Val, pos token.Pos) (*Val, bool) {
		assumed(st)
		qs := st.arr(qStateName, "(Array Int Int)")
		return rv(Val{C: []string{fmt.Sprintf("(qenc %s)", sel(qs, a[0].C[0]))}})
	}
	models["(*net/url.URL).String"] = func(st *State, fr *Frame, fn *ssa.Function, a []Val, pos token.Pos) (*Val, bool) {
		assumed(st)
		raw := st.loadPtrQuiet(st.fieldPtrOf(a[0], pointee(fn.Signature.Recv().Type()), "RawQuery"))
		s := st.fresh("urlstring", SInt)
		st.assume(fmt.Sprintf("(= (rawq %s) %s)", s, raw.C[0]))
		return rv(Val{C: []string{s}})
	}
	models["net/http.Error"] = func(st *State, fr *Frame, fn *ssa.Function, a []Val, pos token.Pos) (*Val, bool) {
		fv := Val{T: fn.Signature, C: []string{st.e.funcID(fn)}}
		st.callOut(fr, nil, "http.Error", fn.Signature, append([]Val{fv}, a...), pos)
		return nil, true
	}
	models["net/url.Parse"] = func(st *State, fr *Frame, fn *ssa.Function, a []Val, pos token.Pos) (*Val, bool) {
		// (u, nil) with a fresh non-nil URL whose RawQuery is the query part of the argument, or (nil, err)
		assumed(st)
		errT := fn.Signature.Results().At(1).Type()
		err := st.freshVal("url.err", errT)
		u := st.newRef("url")
		ut := fn.Signature.Results().At(0).Type()
		st.storePtr(st.fieldPtrOf(Val{T: ut, C: []string{u}}, pointee(ut), "RawQuery"), Val{T: types.Typ[types.String], C: []string{fmt.Sprintf("(rawq %s)", a[0].C[0])}}, pos)
		return rv(Val{C: []string{ite(eq(err.C[0], "0"), u, "0"), err.C[0], err.C[1]}})
	}
	models["net/http.NewRequest"] = func(st *State, fr *Frame, fn *ssa.Function, a []Val, pos token.Pos) (*Val, bool) {
		// (req, nil) with a fresh request whose URL is a fresh URL object parsed from the argument, or (nil, err)
		assumed(st)
		errT := fn.Signature.Results().At(1).Type()
		err := st.freshVal("newrequest.err", errT)
		rt := fn.Signature.Results().At(0).Type()
		req := st.newRef("request")
		urlField := st.fieldPtrOf(Val{T: rt, C: []string{req}}, pointee(rt), "URL")
		u := st.newRef("url")
		st.storePtr(st.fieldPtrOf(Val{T: urlField.T, C: []string{u}}, pointee(urlField.T), "RawQuery"), Val{T: types.Typ[types.String], C: []string{fmt.Sprintf("(rawq %s)", a[1].C[0])}}, pos)
		st.storePtr(urlField, Val{T: urlField.T, C: []string{u}}, pos)
		return rv(Val{C: []string{ite(eq(err.C[0], "0"), req, "0"), err.C[0], err.C[1]}})
	}
	specFuncs["fmtuint"] = func(sc *SpecCtx, x *SExpr) Val { // fmtuint(v, base): strconv.FormatUint(v, base)
		v, b := sc.eval(x.Args[0]), sc.eval(x.Args[1])
		return mkStr(fmt.Sprintf("(fmtuint %s %s)", v.C[0], b.C[0]))
	}
	specFuncs["urlGet"] = func(sc *SpecCtx, x *SExpr) Val { // urlGet(u, k): u.Query().Get(k)
		u, k := sc.eval(x.Args[0]), sc.eval(x.Args[1])
		raw := sc.load(sc.st.fieldPtrOf(u, pointee(u.T), "RawQuery"))
		return mkStr(fmt.Sprintf("(qget (parseq %s) %s)", raw.C[0], k.C[0]))
	}
}
