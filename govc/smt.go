package main

import (
	"bytes"
	"context"
	"fmt"
	"os"
	"os/exec"
	"path/filepath"
	"strings"
	"sync"
	"time"
)

type axiom struct {
	sym  string
	text string
}

const preludeDecls = `(set-logic ALL)
(set-option :produce-models true)
(declare-fun strlen (Int) Int)
(declare-fun strcat (Int Int) Int)
(declare-fun substr (Int Int Int) Int)
(declare-fun runestr (Int) Int)
(declare-fun strbyte (Int Int) Int)
(declare-fun bytesof ((Array Int Int) Int Int) Int)
(declare-fun xxh (Int) Int)
(declare-fun el (Int Int) Int)
(declare-fun slot (Int Int) Int)
(declare-fun el_base (Int) Int)
(declare-fun el_idx (Int) Int)
(declare-fun fa (Int Int) Int)
(declare-fun fa_code (Int) Int)
(declare-fun fa_root (Int) Int)
(declare-fun pair (Int Int) Int)
(declare-fun pair_fst (Int) Int)
(declare-fun pair_snd (Int) Int)
(declare-fun boxreal (Real) Int)
(declare-fun unboxreal (Int) Real)
(declare-fun implements (Int Int) Bool)
(declare-fun ctxval_tag (Int Int Int Int) Int)
(declare-fun ctxval_val (Int Int Int Int) Int)
(declare-fun errIs (Int Int Int Int) Bool)
(declare-fun asExp (Int Int) Bool)
(declare-fun asExp_tag (Int Int) Int)
(declare-fun asExp_val (Int Int) Int)
(declare-fun expval_tag (Int Int) Int)
(declare-fun expval_val (Int Int) Int)
(declare-fun expat (Int Int) Int)
(declare-fun errstr (Int Int) Int)
(declare-fun klkey (Int) Int)
(declare-fun prov (Int Int Int) Bool)
(declare-fun errprov (Int Int Int) Bool)
(declare-fun fmtuint (Int Int) Int)
(declare-fun fmtuint_inv (Int) Int)
(declare-fun bvxor64 (Int Int) Int)
(declare-fun rt_pkgpath (Int) Int)
(declare-fun rt_string (Int) Int)
(declare-fun hw (Int Int) Int)
(declare-fun hsum (Int) Int)
(declare-fun rth (Int Int) Int)
(declare-fun typefp (Int) Int)
(declare-fun xorfold ((Array Int Bool)) Int)
(declare-const hinit Int)
(declare-fun parseq (Int) Int)
(declare-fun qenc (Int) Int)
(declare-fun rawq (Int) Int)
(declare-fun qset (Int Int Int) Int)
(declare-fun qadd (Int Int Int) Int)
(declare-fun qhas (Int Int) Bool)
(declare-fun qget (Int Int) Int)
(declare-fun bvand64 (Int Int) Int)
(declare-fun bvor64 (Int Int) Int)
(declare-fun bvshl64 (Int Int) Int)
(declare-fun bvshr64 (Int Int) Int)
(declare-fun bvandnot64 (Int Int) Int)
(declare-fun bvnot64 (Int) Int)
(define-fun absr ((x Real)) Real (ite (>= x 0.0) x (- x)))
(define-fun absi ((x Int)) Int (ite (>= x 0) x (- x)))
(define-fun ulp53 () Real (/ 1.0 9007199254740992.0))
(define-fun godiv ((a Int) (b Int)) Int (ite (>= a 0) (ite (> b 0) (div a b) (- (div a (- b)))) (ite (> b 0) (- (div (- a) b)) (div (- a) (- b)))))
(define-fun gomod ((a Int) (b Int)) Int (- a (* b (godiv a b))))
`

// axioms are included in a script only when the symbol they constrain occurs in it.
func (e *Engine) axioms() []axiom {
	st := e.sentinelTag()
	return []axiom{
		{"(slot ", `(assert (forall ((o Int) (i Int)) (! (= (slot o i) (+ o i)) :pattern ((slot o i)))))`},
		{"(el ", `(assert (forall ((b Int) (i Int)) (! (and (= (el_base (el b i)) b) (= (el_idx (el b i)) i) (< (el b i) (- 1000))) :pattern ((el b i)))))`},
		{"(fa ", `(assert (forall ((c Int) (r Int)) (! (and (= (fa_code (fa c r)) c) (= (fa_root (fa c r)) r) (< (fa c r) (- 1000))) :pattern ((fa c r)))))`},
		{"(pair ", `(assert (forall ((a Int) (b Int)) (! (and (= (pair_fst (pair a b)) a) (= (pair_snd (pair a b)) b)) :pattern ((pair a b)))))`},
		{"(pair ", `(assert (= (pair 0 0) 0))`},
		{"(pair_fst ", `(assert (and (= (pair_fst 0) 0) (= (pair_snd 0) 0)))`},
		{"(xorfold ", `(assert (= (xorfold ((as const (Array Int Bool)) false)) 0))`},
		{"(xorfold ", `(assert (forall ((d (Array Int Bool)) (k Int)) (! (=> (not (select d k)) (= (xorfold (store d k true)) (bvxor64 (xorfold d) (typefp k)))) :pattern ((xorfold (store d k true))))))`},
		{"(xorfold ", `(assert (forall ((k Int)) (! (= (typefp k) (hsum (rth (hw hinit (strcat (rt_pkgpath (pair_snd k)) (rt_string (pair_snd k)))) (pair_snd k)))) :pattern ((typefp k)))))`},
		{"(qset ", `(assert (forall ((q Int) (k Int) (v Int) (j Int)) (! (and (= (qget (qset q k v) j) (ite (= j k) v (qget q j))) (= (qhas (qset q k v) j) (or (= j k) (qhas q j)))) :pattern ((qget (qset q k v) j)) :pattern ((qhas (qset q k v) j)))))`},
		{"(qadd ", `(assert (forall ((q Int) (k Int) (v Int) (j Int)) (! (and (= (qget (qadd q k v) j) (ite (and (= j k) (not (qhas q k))) v (qget q j))) (= (qhas (qadd q k v) j) (or (= j k) (qhas q j)))) :pattern ((qget (qadd q k v) j)) :pattern ((qhas (qadd q k v) j)))))`},
		{"(qenc ", `(assert (forall ((q Int) (j Int)) (! (and (= (qget (parseq (qenc q)) j) (qget q j)) (= (qhas (parseq (qenc q)) j) (qhas q j))) :pattern ((qget (parseq (qenc q)) j)) :pattern ((qhas (parseq (qenc q)) j)))))`},
		{"(boxreal ", `(assert (forall ((x Real)) (! (= (unboxreal (boxreal x)) x) :pattern ((boxreal x)))))`},
		{"(strlen ", `(assert (forall ((s Int)) (! (>= (strlen s) 0) :pattern ((strlen s)))))`},
		{"(strlen ", `(assert (= (strlen 0) 0))`},
		{"(strlen ", `(assert (forall ((s Int)) (! (=> (= (strlen s) 0) (= s 0)) :pattern ((strlen s)))))`},
		{"(bytesof ", `(assert (forall ((a (Array Int Int)) (o Int) (n Int)) (! (=> (>= n 0) (= (strlen (bytesof a o n)) n)) :pattern ((bytesof a o n)))))`},
		{"(xxh ", `(assert (forall ((s Int)) (! (and (<= 0 (xxh s)) (<= (xxh s) 18446744073709551615)) :pattern ((xxh s)))))`},
		{"(fmtuint ", `(assert (forall ((x Int) (b Int)) (! (= (fmtuint_inv (fmtuint x b)) x) :pattern ((fmtuint x b)))))`},
		{"(errIs ", `(assert (forall ((t Int) (v Int)) (! (=> (not (= t 0)) (errIs t v t v)) :pattern ((errIs t v t v)))))`},
		{"(errIs ", `(assert (forall ((v Int) (t Int) (w Int)) (! (not (errIs 0 v t w)) :pattern ((errIs 0 v t w)))))`},
		{"(errIs ", fmt.Sprintf("(assert (forall ((v Int) (t Int) (w Int)) (! (= (errIs %s v t w) (and (= t %s) (= w v))) :pattern ((errIs %s v t w)))))", st, st, st)},
		{"(asExp ", `(assert (forall ((v Int)) (! (not (asExp 0 v)) :pattern ((asExp 0 v)))))`},
		{"(asExp ", fmt.Sprintf("(assert (forall ((v Int)) (! (not (asExp %s v)) :pattern ((asExp %s v)))))", st, st)},
	}
}

// withPrelude prepends declarations and the axioms relevant to the body.
func (e *Engine) withPrelude(body string, quantFree bool) string {
	var b strings.Builder
	b.WriteString(preludeDecls)
	if !quantFree {
		for _, a := range e.axiomList {
			if strings.Contains(body, a.sym) {
				b.WriteString(a.text)
				b.WriteByte('\n')
			}
		}
	}
	b.WriteString(body)
	return b.String()
}

func isQuantified(t string) bool {
	return strings.Contains(t, "(forall ") || strings.Contains(t, "(exists ")
}

type solverSpec struct {
	name string
	argv func(timeoutMs int) []string
}

var solvers = []solverSpec{
	{"z3-new", func(t int) []string { return []string{"z3-new", "-in", "-smt2", fmt.Sprintf("-t:%d", t)} }},
	{"z3", func(t int) []string { return []string{"z3", "-in", "-smt2", fmt.Sprintf("-t:%d", t)} }},
	{"cvc5", func(t int) []string {
		return []string{"cvc5", "--lang=smt2", "--incremental", fmt.Sprintf("--tlimit-per=%d", t), "-"}
	}},
}

// runSolver feeds a script to a solver and returns its stdout.
func runSolver(s solverSpec, script string, timeoutMs int, hard time.Duration) (string, error) {
	ctx, cancel := context.WithTimeout(context.Background(), hard)
	defer cancel()
	argv := s.argv(timeoutMs)
	cmd := exec.CommandContext(ctx, argv[0], argv[1:]...)
	cmd.Stdin = strings.NewReader(script)
	var out bytes.Buffer
	cmd.Stdout = &out
	cmd.Stderr = &out
	err := cmd.Run()
	return out.String(), err
}

// renderPath renders one path script; checks already emitted elsewhere are skipped (their goal is still assumed).
func (e *Engine) renderPath(lines []Line, covers bool, claim func(*Obligation) bool) (string, []*Obligation) {
	var b strings.Builder
	var obs []*Obligation
	var universals []string // quantified facts asserted so far on this path (candidates for instantiation)
	for _, l := range lines {
		switch l.Kind {
		case lDecl:
			b.WriteString(l.Text)
			b.WriteByte('\n')
		case lAssert:
			if covers && isQuantified(l.Text) {
				continue
			}
			fmt.Fprintf(&b, "(assert %s)\n", l.Text)
			if !covers {
				universals = append(universals, topUniversals(l.Text)...)
			}
		case lCheck:
			if (l.Ob.Expect == "sat") != covers {
				continue
			}
			if !claim(l.Ob) {
				continue
			}
			obs = append(obs, l.Ob)
			if l.Ob.Expect == "sat" {
				fmt.Fprintf(&b, "(echo \"ob:%d\")\n(push 1)\n(check-sat)\n(pop 1)\n", l.Ob.ID)
				continue
			}
			b.WriteString(e.renderGoal(l.Ob, universals, false))
		}
	}
	if len(obs) == 0 {
		return "", nil
	}
	return e.withPrelude(b.String(), covers), obs
}

// renderBatchPath renders a path script in which every run of consecutive checks is asked as ONE question
// (the conjunction of the goals). Most paths satisfy all their postconditions, so this answers them in one query.
func (e *Engine) renderBatchPath(lines []Line, claim func(*Obligation) bool) (string, [][]*Obligation) {
	var b strings.Builder
	var universals []string
	var batches [][]*Obligation
	var pending []*Obligation
	flush := func() {
		if len(pending) == 0 {
			return
		}
		fmt.Fprintf(&b, "(echo \"batch:%d\")\n(push 1)\n", len(batches))
		var disj []string
		for _, ob := range pending {
			subs := splitGoal(ob.Goal, &e.counter)
			if len(subs) > 24 {
				subs = []subgoal{{concl: ob.Goal}}
			}
			for _, sg := range subs {
				for _, d := range sg.skolems {
					b.WriteString(d)
					b.WriteByte('\n')
				}
				var hypUniv []string
				for _, h := range sg.hyps {
					hypUniv = append(hypUniv, topUniversals(h)...)
				}
				if len(sg.names) > 0 && len(sg.names) <= 6 {
					n := 0
					for _, u := range universals {
						for _, inst := range instantiateAt(u, sg.names) {
							if n > 400 {
								break
							}
							fmt.Fprintf(&b, "(assert %s)\n", inst)
							n++
						}
					}
					hy := and(sg.hyps...)
					for _, u := range hypUniv {
						for _, inst := range instantiateAt(u, sg.names) {
							fmt.Fprintf(&b, "(assert (=> %s %s))\n", hy, inst)
						}
					}
				}
				disj = append(disj, and(append(append([]string{}, sg.hyps...), not(sg.concl))...))
			}
		}
		fmt.Fprintf(&b, "(assert %s)\n(check-sat)\n(pop 1)\n", or(disj...))
		batches = append(batches, pending)
		pending = nil
	}
	for _, l := range lines {
		switch l.Kind {
		case lDecl:
			flush()
			b.WriteString(l.Text)
			b.WriteByte('\n')
		case lAssert:
			flush()
			fmt.Fprintf(&b, "(assert %s)\n", l.Text)
			universals = append(universals, topUniversals(l.Text)...)
		case lCheck:
			if l.Ob.Expect == "sat" || !claim(l.Ob) {
				continue
			}
			pending = append(pending, l.Ob)
		}
	}
	flush()
	if len(batches) == 0 {
		return "", nil
	}
	return e.withPrelude(b.String(), false), batches
}

func parseBatchResults(out string) map[int]string {
	res := map[int]string{}
	cur := -1
	for _, l := range strings.Split(out, "\n") {
		l = strings.Trim(strings.TrimSpace(l), "\"")
		if strings.HasPrefix(l, "batch:") {
			fmt.Sscanf(l, "batch:%d", &cur)
			continue
		}
		if cur >= 0 && (l == "sat" || l == "unsat" || l == "unknown" || strings.HasPrefix(l, "timeout")) {
			res[cur] = l
			cur = -1
		}
	}
	return res
}

// topUniversals lists the universally quantified conjuncts of an asserted formula.
func topUniversals(t string) []string {
	ch := sexprChildren(t)
	if len(ch) == 0 {
		return nil
	}
	switch ch[0] {
	case "forall":
		return []string{t}
	case "and":
		var out []string
		for _, c := range ch[1:] {
			out = append(out, topUniversals(c)...)
		}
		return out
	}
	return nil
}

// renderGoal emits one check per conjunct of the goal; universally quantified conjuncts are skolemised and the
// universally quantified hypotheses of the path are instantiated at the skolem constants (a sound hint to the solver).
func (e *Engine) renderGoal(ob *Obligation, universals []string, model bool) string {
	var b strings.Builder
	subs := splitGoal(ob.Goal, &e.counter)
	if len(subs) > 24 {
		subs = []subgoal{{concl: ob.Goal}}
	}
	for _, sg := range subs {
		fmt.Fprintf(&b, "(echo \"ob:%d\")\n(push 1)\n", ob.ID)
		for _, d := range sg.skolems {
			b.WriteString(d)
			b.WriteByte('\n')
		}
		var hypUniv []string
		for _, h := range sg.hyps {
			fmt.Fprintf(&b, "(assert %s)\n", h)
			hypUniv = append(hypUniv, topUniversals(h)...)
		}
		if len(sg.names) > 0 && len(sg.names) <= 6 {
			n := 0
			for _, u := range append(append([]string{}, universals...), hypUniv...) {
				for _, inst := range instantiateAt(u, sg.names) {
					if n > 400 {
						break
					}
					fmt.Fprintf(&b, "(assert %s)\n", inst)
					n++
				}
			}
		}
		fmt.Fprintf(&b, "(assert (not %s))\n(check-sat)\n", sg.concl)
		if model {
			b.WriteString("(get-model)\n")
			b.WriteString(e.getValueCmd(ob))
		}
		b.WriteString("(pop 1)\n")
	}
	return b.String()
}

func (e *Engine) getValueCmd(ob *Obligation) string {
	ts := e.replayTerms[ob.Fn]
	if len(ts) == 0 {
		return ""
	}
	var names []string
	for _, t := range ts {
		names = append(names, t.Term)
	}
	return "(get-value (" + strings.Join(names, " ") + "))\n"
}

func (e *Engine) standalone(lines []Line, ob *Obligation, model bool, quantFree bool) string {
	var b strings.Builder
	var universals []string
	for _, l := range lines {
		switch l.Kind {
		case lDecl:
			b.WriteString(l.Text)
			b.WriteByte('\n')
		case lAssert:
			if quantFree && isQuantified(l.Text) {
				continue
			}
			fmt.Fprintf(&b, "(assert %s)\n", l.Text)
			universals = append(universals, topUniversals(l.Text)...)
		case lCheck:
			if l.Ob == ob {
				if ob.Expect == "sat" {
					b.WriteString("(check-sat)\n")
					if model {
						b.WriteString("(get-model)\n")
					}
				} else if quantFree {
					fmt.Fprintf(&b, "(assert (not %s))\n(check-sat)\n", ob.Goal)
					if model {
						b.WriteString("(get-model)\n")
						b.WriteString(e.getValueCmd(ob))
					}
				} else {
					b.WriteString(e.renderGoal(ob, universals, model))
				}
				return e.withPrelude(b.String(), quantFree)
			}
		}
	}
	return e.withPrelude(b.String(), quantFree)
}

// parseResults combines the answers per obligation: unsat only if every sub-check is unsat; sat if any is sat.
func parseResults(out string) map[int]string {
	res := map[int]string{}
	lines := strings.Split(out, "\n")
	cur := -1
	pending := map[int]bool{}
	for _, l := range lines {
		l = strings.TrimSpace(l)
		l = strings.Trim(l, "\"")
		if strings.HasPrefix(l, "ob:") {
			fmt.Sscanf(l, "ob:%d", &cur)
			pending[cur] = true
			continue
		}
		if cur >= 0 && (l == "sat" || l == "unsat" || l == "unknown" || strings.HasPrefix(l, "timeout")) {
			prev, seen := res[cur]
			switch {
			case !seen:
				res[cur] = l
			case prev == "sat" || l == "sat":
				res[cur] = "sat"
			case prev != "unsat" || l != "unsat":
				res[cur] = "unknown"
			}
			delete(pending, cur)
			cur = -1
		}
	}
	for id := range pending {
		res[id] = "unknown" // a sub-check produced no answer
	}
	return res
}

// solveAll discharges all collected obligations.
func (e *Engine) solveAll(want func(*Obligation) bool, quickMs, slowMs int, workers int, scratch string) {
	e.axiomList = e.axioms()
	type job struct {
		lines  []Line
		text   string
		obs    []*Obligation
		covers bool
	}
	var jobs []*job
	claimed := map[*Obligation]bool{}
	owner := map[*Obligation][]Line{}
	hardPath := map[*Obligation]bool{} // keyed by the first obligation of the path's first batch
	pathKey := map[*Obligation]*Obligation{}
	// pass 1: one query per run of consecutive obligations
	{
		type bjob struct {
			text    string
			batches [][]*Obligation
		}
		var bjobs []*bjob
		seen := map[*Obligation]bool{}
		for _, lines := range e.scripts {
			text, batches := e.renderBatchPath(lines, func(ob *Obligation) bool {
				if seen[ob] || !want(ob) || ob.Status != "" {
					return false
				}
				seen[ob] = true
				return true
			})
			if len(batches) > 0 {
				bjobs = append(bjobs, &bjob{text, batches})
				for _, bt := range batches {
					for _, ob := range bt {
						pathKey[ob] = batches[0][0]
					}
				}
			}
		}
		var bwg sync.WaitGroup
		bch := make(chan *bjob)
		var bmu sync.Mutex
		for w := 0; w < workers; w++ {
			bwg.Add(1)
			go func() {
				defer bwg.Done()
				for j := range bch {
					t0 := time.Now()
					bq := quickMs
					out, _ := runSolver(solvers[0], j.text, bq, time.Duration(len(j.batches)*bq+5000)*time.Millisecond)
					res := parseBatchResults(out)
					dt := time.Since(t0).Seconds()
					n := 0
					for _, bt := range j.batches {
						n += len(bt)
					}
					bmu.Lock()
					nf := 0
					for i := range j.batches {
						if res[i] != "unsat" {
							nf++
						}
					}
					if nf >= 3 {
						hardPath[j.batches[0][0]] = true // several batches of this path did not go through: a hard context
					}
					for i, bt := range j.batches {
						if res[i] == "unsat" {
							for _, ob := range bt {
								ob.Status, ob.Solver, ob.Secs = "discharged", solvers[0].name, dt/float64(n)
							}
						}
					}
					bmu.Unlock()
				}
			}()
		}
		if d := os.Getenv("GOVC_DUMPALL"); d != "" {
			_ = os.MkdirAll(d, 0o755)
			for i, j := range bjobs {
				_ = os.WriteFile(filepath.Join(d, fmt.Sprintf("batch%03d_%s.smt2", i, safeName(j.batches[0][0].Fn))), []byte(j.text), 0o644)
			}
		}
		for _, j := range bjobs {
			bch <- j
		}
		close(bch)
		tb := time.Now()
		bwg.Wait()
		if os.Getenv("GOVC_TIMING") != "" {
			fmt.Fprintf(os.Stderr, "batch pass: %d path scripts, %.1fs\n", len(bjobs), time.Since(tb).Seconds())
		}
	}
	for _, lines := range e.scripts {
		for _, covers := range []bool{false, true} {
			text, obs := e.renderPath(lines, covers, func(ob *Obligation) bool {
				if claimed[ob] || !want(ob) || ob.Status != "" {
					return false
				}
				claimed[ob] = true
				return true
			})
			if len(obs) == 0 {
				continue
			}
			for _, ob := range obs {
				owner[ob] = lines
			}
			jobs = append(jobs, &job{lines: lines, text: text, obs: obs, covers: covers})
		}
	}
	var wg sync.WaitGroup
	ch := make(chan *job)
	var mu sync.Mutex
	failedNames := map[string]int{}
	retrySem := make(chan struct{}, 3)
	for w := 0; w < workers; w++ {
		wg.Add(1)
		go func() {
			defer wg.Done()
			for j := range ch {
				t0 := time.Now()
				pq := quickMs * 2 / 5 // per obligation, incremental; what is left goes to fresh processes (retryOne)
				hard := time.Duration(len(j.obs)*pq+5000) * time.Millisecond
				out := ""
				if j.covers || !hardPath[pathKey[j.obs[0]]] {
					out, _ = runSolver(solvers[0], j.text, pq, hard)
				} // else: a hard context; every obligation left goes to fresh processes right away, in parallel
				res := parseResults(out)
				dt := time.Since(t0).Seconds()
				var retry []*Obligation
				mu.Lock()
				for _, ob := range j.obs {
					r := res[ob.ID]
					ob.Solver = solvers[0].name
					ob.Secs = dt / float64(len(j.obs))
					switch {
					case ob.Expect == "sat" && r == "sat":
						ob.Status = "covered"
					case ob.Expect == "sat" && r == "unsat":
						ob.Status = "uncovered"
					case ob.Expect != "sat" && r == "unsat":
						ob.Status = "discharged"
					default:
						if r == "" && strings.Contains(out, "error") {
							ob.Model = firstError(out)
						}
						retry = append(retry, ob)
					}
				}
				mu.Unlock()
				// obligations left over by the incremental run are retried in fresh processes, several at a time
				var rwg sync.WaitGroup
				for _, ob := range retry {
					mu.Lock()
					already := failedNames[ob.Name]
					mu.Unlock()
					if already >= 2 {
						// the obligation already failed on other paths: do not spend the portfolio on every instance
						mu.Lock()
						ob.Status, ob.Solver = "failed", "not retried (already failed on another path)"
						mu.Unlock()
						continue
					}
					rwg.Add(1)
					go func(ob *Obligation) {
						defer rwg.Done()
						retrySem <- struct{}{}
						defer func() { <-retrySem }()
						e.retryOne(owner[ob], ob, slowMs, scratch, &mu)
						mu.Lock()
						if ob.Status != "discharged" && ob.Status != "covered" {
							failedNames[ob.Name]++
						}
						mu.Unlock()
					}(ob)
				}
				rwg.Wait()
			}
		}()
	}
	if d := os.Getenv("GOVC_DUMPALL"); d != "" {
		_ = os.MkdirAll(d, 0o755)
		for i, j := range jobs {
			_ = os.WriteFile(filepath.Join(d, fmt.Sprintf("path%03d_%s.smt2", i, safeName(j.obs[0].Fn))), []byte(j.text), 0o644)
		}
	}
	tp := time.Now()
	for _, j := range jobs {
		ch <- j
	}
	close(ch)
	wg.Wait()
	if os.Getenv("GOVC_TIMING") != "" {
		fmt.Fprintf(os.Stderr, "per-path pass + retries: %d scripts, %.1fs\n", len(jobs), time.Since(tp).Seconds())
	}
	// second chance: an obligation that is left undischarged without a genuine counterexample may have lost a race
	// for CPU time against the other queries; it is tried once more, with the machine to itself and a larger
	// budget, before it is reported (at most a handful, so that a broken tree does not cost minutes)
	ts := time.Now()
	var again []*Obligation
	seenName := map[string]bool{}
	for _, j := range jobs {
		for _, ob := range j.obs {
			if ob.Expect == "sat" || ob.Goal == "false" || ob.Status == "discharged" || seenName[ob.Name] {
				continue
			}
			if ob.Status == "failed" && !strings.Contains(ob.Solver, "quantifier-free") && !strings.Contains(ob.Solver, "not retried") {
				continue // a model of the full context: genuine
			}
			seenName[ob.Name] = true
			again = append(again, ob)
		}
	}
	if len(again) > 0 && len(again) <= 4 {
		e.conjOnly = true
		var awg sync.WaitGroup
		sem := make(chan struct{}, 2)
		for _, ob := range again {
			awg.Add(1)
			go func(ob *Obligation) {
				defer awg.Done()
				sem <- struct{}{}
				defer func() { <-sem }()
				prev := *ob
				e.retryOne(owner[ob], ob, slowMs*3/2, scratch, &mu)
				mu.Lock()
				if ob.Status != "discharged" {
					ob.Status, ob.Solver, ob.Model, ob.Values = prev.Status, prev.Solver, prev.Model, prev.Values
				} else {
					ob.Solver += " (second attempt)"
					// the other instances of the same obligation were skipped after this one failed
					for _, j := range jobs {
						for _, o2 := range j.obs {
							if o2.Name == ob.Name && o2 != ob && strings.Contains(o2.Solver, "not retried") {
								o2.Status = ""
							}
						}
					}
				}
				mu.Unlock()
			}(ob)
		}
		awg.Wait()
		e.conjOnly = false
		// instances released above
		for _, j := range jobs {
			for _, o2 := range j.obs {
				if o2.Status == "" && o2.Expect != "sat" {
					e.retryOne(owner[o2], o2, slowMs, scratch, &mu)
				}
			}
		}
		if os.Getenv("GOVC_TIMING") != "" {
			fmt.Fprintf(os.Stderr, "second attempts: %d obligations, %.1fs\n", len(again), time.Since(ts).Seconds())
		}
	}
}

func firstError(out string) string {
	for _, l := range strings.Split(out, "\n") {
		if strings.Contains(l, "error") {
			return l
		}
	}
	return ""
}

// retryOne races the three solvers on one obligation.
func (e *Engine) retryOne(lines []Line, ob *Obligation, slowMs int, scratch string, mu *sync.Mutex) {
	if ob.Goal == "false" && ob.Expect != "sat" {
		// a discipline rule violated syntactically on this path: it stands unless the path is infeasible, which the
		// per-path run has just failed to show; only the quantifier-free feasibility check is repeated (for the model)
		qf := e.standalone(lines, ob, true, true)
		status, solver, model := "failed", "path not refuted", ""
		t0 := time.Now()
		out, _ := runSolver(solvers[0], qf, 5000, 8*time.Second)
		switch answerOf(out, ob) {
		case "unsat":
			status, solver = "discharged", solvers[0].name
		case "sat":
			solver, model = solvers[0].name+" (quantifier-free context)", out
		}
		mu.Lock()
		ob.Status, ob.Solver, ob.Secs, ob.Model = status, solver, time.Since(t0).Seconds(), model
		if status != "discharged" {
			ob.Values = e.withConsts(ob.Fn, parseGetValue(out))
		}
		mu.Unlock()
		return
	}
	script := e.standalone(lines, ob, true, ob.Expect == "sat")
	if d := os.Getenv("GOVC_DUMPOB"); d != "" && strings.Contains(ob.Name, d) {
		_ = os.WriteFile(fmt.Sprintf("/tmp/dumpob_%d.smt2", ob.ID), []byte(script), 0o644)
	}
	if ob.Expect != "sat" && strings.Count(script, "(push 1)") >= 1 {
		// every conjunct of the goal as a query of its own, in fresh solver processes (an incremental run over
		// a large quantified context is often slower by orders of magnitude than the sum of the fresh runs)
		parts := strings.Split(script, "(push 1)")
		head := parts[0]
		okAll := true
		var pmu sync.Mutex
		var pwg sync.WaitGroup
		t0 := time.Now()
		sem := make(chan struct{}, 2)
		for _, seg := range parts[1:] {
			body := seg
			if i := strings.Index(body, "(pop 1)"); i >= 0 {
				body = body[:i]
			}
			pwg.Add(1)
			go func(q string) {
				defer pwg.Done()
				sem <- struct{}{}
				defer func() { <-sem }()
				// quantifier instantiation is sensitive to the search order and to the solver: a proof is usually
				// found within a second or not at all, so short runs of both z3 versions with changing seeds beat
				// one long run
				ans := "unknown"
				first := func(out string) string {
					for _, l := range strings.Split(out, "\n") {
						l = strings.TrimSpace(l)
						if l == "sat" || l == "unsat" || l == "unknown" {
							return l
						}
					}
					return "unknown"
				}
				// waves of three seeds on both solvers at once; the first definite answer wins
				type wave struct {
					seeds []int
					ms    int
				}
				waves := []wave{{[]int{0, 1, 2}, 2500}, {[]int{3, 4, 5}, 2500}, {[]int{6, 7, 8}, 3500}, {[]int{9}, slowMs / 2}}
				for _, w := range waves {
					res := make(chan string, 2*len(w.seeds))
					for _, seed := range w.seeds {
						qq := q
						if seed > 0 {
							qq = fmt.Sprintf("(set-option :smt.random_seed %d)\n(set-option :sat.random_seed %d)\n", seed, seed) + q
						}
						for _, sv := range solvers[:2] {
							go func(sv solverSpec, qq string) {
								out, _ := runSolver(sv, qq, w.ms, time.Duration(w.ms+3000)*time.Millisecond)
								res <- first(out)
							}(sv, qq)
						}
					}
					ans = "unknown"
					for k := 0; k < 2*len(w.seeds); k++ {
						a := <-res
						if a == "unsat" || (a == "sat" && ans != "unsat") {
							ans = a
						}
						if ans == "unsat" {
							break // (the other runs of the wave end at their time limit)
						}
					}
					if ans == "unsat" || ans == "sat" {
						break
					}
				}
				if ans != "unsat" {
					pmu.Lock()
					okAll = false
					pmu.Unlock()
				}
			}(head + body)
		}
		pwg.Wait()
		if okAll {
			mu.Lock()
			ob.Status, ob.Solver, ob.Secs = "discharged", "z3-new|z3 (conjuncts separately)", time.Since(t0).Seconds()
			mu.Unlock()
			return
		}
		if e.conjOnly {
			return // second attempt: the portfolio and the model search have already been spent on this obligation
		}
	}
	type result struct {
		solver string
		out    string
		secs   float64
	}
	results := make(chan result, len(solvers))
	for _, s := range solvers {
		s := s
		go func() {
			t0 := time.Now()
			out, _ := runSolver(s, script, slowMs, time.Duration(slowMs+3000)*time.Millisecond)
			results <- result{s.name, out, time.Since(t0).Seconds()}
		}()
	}
	status, solver, model, secs := "unknown", "", "", 0.0
	var outs []string
	for i := 0; i < len(solvers); i++ {
		r := <-results
		first := answerOf(r.out, ob)
		outs = append(outs, r.solver+": "+first)
		if ob.Expect == "sat" {
			if first == "sat" {
				status, solver, secs = "covered", r.solver, r.secs
				break
			}
			if first == "unsat" && status != "covered" {
				status, solver, secs = "uncovered", r.solver, r.secs
			}
			continue
		}
		if first == "unsat" {
			status, solver, secs = "discharged", r.solver, r.secs
			break
		}
		if first == "sat" && status != "failed" {
			status, solver, secs = "failed", r.solver, r.secs
			model = r.out
			ob.Values = e.withConsts(ob.Fn, parseGetValue(r.out))
		}
	}
	if ob.Expect != "sat" && status != "discharged" {
		// look for a counterexample candidate in the quantifier-free weakening of the context
		qf := e.standalone(lines, ob, true, true)
		for _, s := range solvers[:2] {
			t0 := time.Now()
			out, _ := runSolver(s, qf, slowMs, time.Duration(slowMs+3000)*time.Millisecond)
			first := answerOf(out, ob)
			if first == "sat" {
				status, solver, secs, model = "failed", s.name+" (quantifier-free context)", time.Since(t0).Seconds(), out
				ob.Values = e.withConsts(ob.Fn, parseGetValue(out))
				break
			}
			if first == "unsat" {
				// contradiction without the quantified facts: the full query cannot be sat either
				status, solver, secs = "discharged", s.name, time.Since(t0).Seconds()
				break
			}
		}
	}
	mu.Lock()
	ob.Status, ob.Solver, ob.Secs = status, solver, secs
	if status != "discharged" && status != "covered" {
		if model != "" {
			ob.Model = model
		} else {
			ob.Model = strings.Join(outs, "; ") + " " + ob.Model
		}
		ob.Script = script
		if scratch != "" {
			_ = os.MkdirAll(scratch, 0o755)
			_ = os.WriteFile(filepath.Join(scratch, fmt.Sprintf("ob%d.smt2", ob.ID)), []byte(script), 0o644)
		}
	}
	mu.Unlock()
}

func (e *Engine) withConsts(fn string, vals map[string]string) map[string]string {
	for k, v := range e.replayConsts {
		if strings.HasPrefix(k, fn+"\x00") {
			vals[strings.TrimPrefix(k, fn+"\x00")] = v
		}
	}
	return vals
}

// answerOf extracts the verdict for one obligation from a standalone run.
func answerOf(out string, ob *Obligation) string {
	if strings.Contains(out, fmt.Sprintf("ob:%d", ob.ID)) {
		return parseResults(out)[ob.ID]
	}
	for _, l := range strings.Split(strings.TrimSpace(out), "\n") {
		l = strings.TrimSpace(l)
		if l == "sat" || l == "unsat" || l == "unknown" {
			return l
		}
		if strings.HasPrefix(l, "(error") || strings.HasPrefix(l, "timeout") {
			return "unknown"
		}
	}
	return "unknown"
}
