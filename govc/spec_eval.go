package main

import (
	"fmt"
	"go/constant"
	"go/token"
	"go/types"
	"os"
	"strings"
)

// SpecCtx evaluates specification expressions against a symbolic state.
type SpecCtx struct {
	st    *State
	vars  map[string]Val // parameters, results, lets, quantifier variables
	old   *Snapshot      // pre-state for old()
	cur   *Snapshot      // nil: current state; otherwise evaluate heap reads in this snapshot
	where string
	fn    string // function whose locals the identifiers may denote
	fr    *Frame // frame the clause belongs to (loop entry snapshots for atloop)
	bound int
	grant bool // evaluating preconditions of the function under verification (tok() grants the token)
}

type specErr struct{ msg string }

func (sc *SpecCtx) fail(format string, a ...interface{}) {
	panic(specErr{sc.where + ": " + fmt.Sprintf(format, a...)})
}

var (
	tInt        = types.Typ[types.Int]
	tBool       = types.Typ[types.Bool]
	tReal       = types.Typ[types.Float64]
	tStr        = types.Typ[types.String]
	tInt64      = types.Typ[types.Int64]
	tUint64     = types.Typ[types.Uint64]
	tUntypedInt = types.Typ[types.UntypedInt]
)

func mkInt(s string) Val  { return Val{T: tUntypedInt, C: []string{s}} }
func mkBool(s string) Val { return Val{T: tBool, C: []string{s}} }
func mkReal(s string) Val { return Val{T: tReal, C: []string{s}} }
func mkStr(s string) Val  { return Val{T: tStr, C: []string{s}} }

func (sc *SpecCtx) arr(name, sort string) string {
	return sc.st.arrIn(sc.cur, name, sort)
}

// evalBool evaluates a clause to an SMT Bool term; spec errors are reported as unsupported.
func (sc *SpecCtx) evalBool(x *SExpr) string {
	v := sc.eval(x)
	if len(v.C) != 1 || !isBoolVal(sc.st.e, v) {
		sc.fail("clause is not boolean: %s", x)
	}
	return v.C[0]
}

func isBoolVal(e *Engine, v Val) bool {
	if v.T == nil {
		return false
	}
	b, ok := v.T.Underlying().(*types.Basic)
	return ok && b.Info()&types.IsBoolean != 0
}

func (sc *SpecCtx) sortOf(v Val) Sort {
	cs := sc.st.e.flatten(v.T)
	if len(cs) != 1 {
		return ""
	}
	return cs[0].Sort
}

func (sc *SpecCtx) eval(x *SExpr) Val {
	e := sc.st.e
	switch x.Op {
	case "int":
		return mkInt(x.Name)
	case "float":
		return mkReal(decimalToSMT(x.Name))
	case "str":
		return mkStr(e.strLit(x.Name))
	case "ident":
		return sc.ident(x.Name)
	case "unary":
		v := sc.eval(x.Args[0])
		if x.Name == "!" {
			return mkBool(not(v.C[0]))
		}
		if sc.sortOf(v) == SReal {
			return mkReal("(- " + v.C[0] + ")")
		}
		return Val{T: v.T, C: []string{"(- " + v.C[0] + ")"}}
	case "deref":
		v := sc.eval(x.Args[0])
		return sc.load(sc.st.asPtr(v))
	case "sel":
		return sc.selector(x)
	case "index":
		return sc.index(x)
	case "cond":
		c := sc.evalBool(x.Args[0])
		a, b := sc.eval(x.Args[1]), sc.eval(x.Args[2])
		a, b = sc.coerce(a, b)
		out := Val{T: a.T}
		for i := range a.C {
			out.C = append(out.C, ite(c, a.C[i], b.C[i]))
		}
		return out
	case "binary":
		return sc.binary(x)
	case "forall", "exists":
		return sc.quant(x)
	case "call":
		return sc.call(x)
	}
	sc.fail("cannot evaluate %s", x)
	return Val{}
}

func decimalToSMT(s string) string {
	v := constant.MakeFromLiteral(s, token.FLOAT, 0)
	if f, _ := constant.Float64Val(v); v.Kind() != constant.Unknown {
		// a float literal in a contract denotes the float64 nearest to it, as in Go code
		v = constant.MakeFloat64(f)
	}
	if v.Kind() == constant.Unknown {
		// go/constant needs token kind; fall back
		return s
	}
	return smtReal(v)
}

func (sc *SpecCtx) ident(name string) Val {
	e := sc.st.e
	switch name {
	case "true":
		return mkBool("true")
	case "false":
		return mkBool("false")
	case "nil":
		return Val{T: types.Typ[types.UntypedNil], C: []string{"0"}}
	}
	if v, ok := sc.vars[name]; ok {
		return v
	}
	// package-level constant / variable
	if obj := e.P.TPkg.Scope().Lookup(name); obj != nil {
		switch o := obj.(type) {
		case *types.Const:
			return sc.constVal(o.Type(), o.Val())
		case *types.Var:
			g := e.P.Pkg.Var(name)
			if g != nil {
				p := &Ptr{Kind: PObj, Root: e.globalRef(g), RootT: o.Type(), T: o.Type()}
				return sc.load(p)
			}
		}
	}
	// qualified stdlib constants commonly used
	switch name {
	case "MaxInt64":
		return mkInt("9223372036854775807")
	case "MinInt64":
		return mkInt("(- 9223372036854775808)")
	case "Second":
		return mkInt("1000000000")
	case "Minute":
		return mkInt("60000000000")
	case "Hour":
		return mkInt("3600000000000")
	}
	// a local the pinned tree knew under this name may have been renamed: re-bind by position (symbols.go)
	if sc.fn != "" {
		if nn := e.renamed(sc.fn, name); nn != "" {
			if v, ok := sc.vars[nn]; ok {
				msg := fmt.Sprintf("contract of %s: local %q is now called %q (re-bound by position)", sc.fn, name, nn)
				if e.warnings[msg] == 0 {
					fmt.Fprintln(os.Stderr, "NOTE:", msg)
				}
				e.warn("%s", msg)
				return v
			}
		}
	}
	sc.fail("unknown identifier %q", name)
	return Val{}
}

func (sc *SpecCtx) constVal(t types.Type, v constant.Value) Val {
	e := sc.st.e
	switch v.Kind() {
	case constant.Bool:
		if constant.BoolVal(v) {
			return Val{T: t, C: []string{"true"}}
		}
		return Val{T: t, C: []string{"false"}}
	case constant.String:
		return Val{T: t, C: []string{e.strLit(constant.StringVal(v))}}
	case constant.Int:
		if isFloat(t) {
			return Val{T: t, C: []string{smtReal(v)}}
		}
		return Val{T: t, C: []string{smtInt(v.ExactString())}}
	case constant.Float:
		return Val{T: t, C: []string{smtReal(v)}}
	}
	sc.fail("constant kind")
	return Val{}
}

// load reads memory in the context's heap version (no obligations, no assumptions).
func (sc *SpecCtx) load(p *Ptr) Val {
	e := sc.st.e
	v := Val{T: p.T}
	for _, c := range e.flatten(p.T) {
		switch p.Kind {
		case PObj:
			nm, root := sc.st.leafLoc(p.RootT, p.Root, p.Path+c.Path)
			e.noteRef(nm, c)
			if sc.bound == 0 && sc.cur == nil {
				sc.st.instantiateForArray(nm, root)
			}
			v.C = append(v.C, sel(sc.arr(nm, arrSort(c.Sort)), root))
		case PElem:
			nm := elemsName(e, p.T, c.Path)
			e.noteRef(nm, c)
			v.C = append(v.C, sel(sel(sc.arr(nm, arr2Sort(c.Sort)), p.Root), p.Idx))
		default:
			sc.fail("load of array")
		}
	}
	return v
}

func (sc *SpecCtx) selector(x *SExpr) Val {
	e := sc.st.e
	base := sc.eval(x.Args[0])
	name := x.Name
	t := base.T
	// auto-dereference
	if pt, ok := t.Underlying().(*types.Pointer); ok {
		p := sc.st.asPtr(base)
		st, ok := sc.st.e.P.canonT(pt.Elem()).Underlying().(*types.Struct)
		if !ok {
			sc.fail("selector %s on pointer to non-struct %s", name, t)
		}
		if p.Kind != PObj {
			sc.fail("selector on non-object pointer")
		}
		idx, f := findField(st, name)
		if idx < 0 {
			// promoted through embedded field?
			for i := 0; i < st.NumFields(); i++ {
				if st.Field(i).Embedded() {
					inner := &SExpr{Op: "sel", Name: st.Field(i).Name(), Args: []*SExpr{x.Args[0]}}
					return sc.selector(&SExpr{Op: "sel", Name: name, Args: []*SExpr{inner}})
				}
			}
			sc.fail("no field %s in %s", name, t)
		}
		np := &Ptr{Kind: PObj, Root: p.Root, RootT: p.RootT, Path: p.Path + "." + f.Name(), T: f.Type()}
		if e.isEmbeddedObject(f) {
			sub := &Ptr{Kind: PObj, Root: sc.st.ptrTerm(np), RootT: f.Type(), T: f.Type()}
			return Val{T: types.NewPointer(f.Type()), C: []string{sub.Root}, P: sub}
		}
		if _, isArr := f.Type().Underlying().(*types.Array); isArr {
			ap := &Ptr{Kind: PArr, Root: sc.st.ptrTerm(np), T: f.Type()}
			return Val{T: types.NewPointer(f.Type()), C: []string{ap.Root}, P: ap}
		}
		if e.opaqueStruct(f.Type()) {
			return Val{T: types.NewPointer(f.Type()), C: []string{sc.st.ptrTerm(np)}, P: np}
		}
		return sc.load(np)
	}
	t = e.P.canonT(t)
	if st, ok := t.Underlying().(*types.Struct); ok && !isTimeTime(t) {
		idx, _ := findField(st, name)
		if idx < 0 {
			for i := 0; i < st.NumFields(); i++ {
				if st.Field(i).Embedded() {
					inner := &SExpr{Op: "sel", Name: st.Field(i).Name(), Args: []*SExpr{x.Args[0]}}
					return sc.selector(&SExpr{Op: "sel", Name: name, Args: []*SExpr{inner}})
				}
			}
			sc.fail("no field %s in %s", name, t)
		}
		lo, hi := e.fieldRange(t, idx)
		return Val{T: st.Field(idx).Type(), C: base.C[lo:hi]}
	}
	sc.fail("selector %s on %s", name, t)
	return Val{}
}

func findField(st *types.Struct, name string) (int, *types.Var) {
	for i := 0; i < st.NumFields(); i++ {
		if st.Field(i).Name() == name {
			return i, st.Field(i)
		}
	}
	return -1, nil
}

func (sc *SpecCtx) index(x *SExpr) Val {
	e := sc.st.e
	base := sc.eval(x.Args[0])
	idx := sc.eval(x.Args[1])
	switch t := base.T.Underlying().(type) {
	case *types.Slice:
		p := sc.st.sliceElemPtr(base, idx.C[0])
		return sc.load(p)
	case *types.Map:
		// Go semantics: the zero value for an absent key
		kt := sc.st.mapKeyTerm(t, idx)
		raw := sc.mapGet(t, base.C[0], kt)
		has := sc.mapHas(t, base.C[0], kt)
		z := e.zero(t.Elem())
		out := Val{T: raw.T}
		for i := range raw.C {
			out.C = append(out.C, ite(has, raw.C[i], z.C[i]))
		}
		return out
	case *types.Pointer:
		if at, ok := t.Elem().Underlying().(*types.Array); ok {
			p := sc.st.asPtr(base)
			et := at.Elem()
			if _, isStruct := et.Underlying().(*types.Struct); isStruct && !isTimeTime(et) {
				root := fmt.Sprintf("(el %s %s)", p.Root, idx.C[0])
				np := &Ptr{Kind: PObj, Root: root, RootT: et, T: et}
				return Val{T: types.NewPointer(et), C: []string{root}, P: np}
			}
			return sc.load(&Ptr{Kind: PElem, Root: p.Root, Idx: idx.C[0], T: et})
		}
	}
	_ = e
	sc.fail("index on %s", base.T)
	return Val{}
}

func (sc *SpecCtx) mapHas(mt *types.Map, m, k string) string {
	dom, _, _, _ := sc.st.e.mapNames(mt)
	return and(not(eq(m, "0")), sel(sel(sc.arr(dom, "(Array Int (Array Int Bool))"), m), k))
}

func (sc *SpecCtx) mapGet(mt *types.Map, m, k string) Val {
	e := sc.st.e
	_, _, vals, vcomps := e.mapNames(mt)
	v := Val{T: mt.Elem()}
	for i, nm := range vals {
		a := sc.arr(nm, arr2Sort(vcomps[i].Sort))
		v.C = append(v.C, sel(sel(a, m), k))
	}
	return v
}

// coerce makes two scalar values comparable (int vs real).
func (sc *SpecCtx) coerce(a, b Val) (Val, Val) {
	if len(a.C) == 1 && len(b.C) == 1 {
		sa, sb := sc.sortOf(a), sc.sortOf(b)
		if sa == SReal && sb == SInt {
			b = mkReal("(to_real " + b.C[0] + ")")
		} else if sa == SInt && sb == SReal {
			a = mkReal("(to_real " + a.C[0] + ")")
		}
	}
	return a, b
}

func (sc *SpecCtx) binary(x *SExpr) Val {
	op := x.Name
	switch op {
	case "&&":
		return mkBool(and(sc.evalBool(x.Args[0]), sc.evalBool(x.Args[1])))
	case "||":
		return mkBool(or(sc.evalBool(x.Args[0]), sc.evalBool(x.Args[1])))
	case "==>":
		return mkBool(implies(sc.evalBool(x.Args[0]), sc.evalBool(x.Args[1])))
	case "<==>":
		return mkBool(eq(sc.evalBool(x.Args[0]), sc.evalBool(x.Args[1])))
	}
	a, b := sc.eval(x.Args[0]), sc.eval(x.Args[1])
	switch op {
	case "==", "!=":
		var t string
		if isNilVal(a) || isNilVal(b) {
			other := a
			if isNilVal(a) {
				other = b
			}
			t = eq(other.C[0], "0")
		} else {
			a, b = sc.coerce(a, b)
			t = sc.st.valuesEqual(a, b)
		}
		if op == "!=" {
			t = not(t)
		}
		return mkBool(t)
	}
	a, b = sc.coerce(a, b)
	if len(a.C) != 1 || len(b.C) != 1 {
		sc.fail("operator %s on composite values", op)
	}
	isR := sc.sortOf(a) == SReal
	mk := func(s string) Val {
		if isR {
			return mkReal(s)
		}
		t := a.T
		if t == tUntypedInt {
			t = b.T
		}
		return Val{T: t, C: []string{s}}
	}
	switch op {
	case "<", "<=", ">", ">=":
		return mkBool(fmt.Sprintf("(%s %s %s)", op, a.C[0], b.C[0]))
	case "+", "-", "*":
		return mk(fmt.Sprintf("(%s %s %s)", op, a.C[0], b.C[0]))
	case "/":
		if isR {
			return mk(fmt.Sprintf("(/ %s %s)", a.C[0], b.C[0]))
		}
		return mk(fmt.Sprintf("(godiv %s %s)", a.C[0], b.C[0]))
	case "%":
		if _, signed, ok := bitsOf(a.T); ok && !signed {
			return mk(fmt.Sprintf("(mod %s %s)", a.C[0], b.C[0]))
		}
		return mk(fmt.Sprintf("(gomod %s %s)", a.C[0], b.C[0]))
	}
	sc.fail("operator %s", op)
	return Val{}
}

func isNilVal(v Val) bool {
	b, ok := v.T.(*types.Basic)
	return ok && b.Kind() == types.UntypedNil
}

func (sc *SpecCtx) resolveType(name string) types.Type {
	e := sc.st.e
	switch name {
	case "int":
		return tInt
	case "int64":
		return tInt64
	case "uint64":
		return tUint64
	case "string":
		return tStr
	case "bool":
		return tBool
	case "float64", "real":
		return tReal
	case "ref", "key":
		return tUntypedInt
	case "error":
		return types.Universe.Lookup("error").Type()
	case "any":
		return types.NewInterfaceType(nil, nil)
	}
	ptr := false
	if strings.HasPrefix(name, "*") {
		ptr = true
		name = name[1:]
	}
	if strings.Contains(name, ".") && !strings.Contains(name, "[") {
		// a type of another package (reflect.Type), as it occurs in the code
		if t := e.typeByString(name); t != nil {
			if ptr {
				return types.NewPointer(t)
			}
			return t
		}
	}
	if strings.Contains(name, "[") {
		// instantiated generic type as it appears in the function under verification (e.g. TraitEntryOf[V])
		if t := e.typeByString(name); t != nil {
			if ptr {
				return types.NewPointer(t)
			}
			return t
		}
		sc.fail("type %q does not occur in the function under verification", name)
	}
	obj := e.P.TPkg.Scope().Lookup(name)
	if tn, ok := obj.(*types.TypeName); ok {
		if ptr {
			return types.NewPointer(tn.Type())
		}
		return tn.Type()
	}
	sc.fail("unknown type %q", name)
	return nil
}

func (sc *SpecCtx) quant(x *SExpr) Val {
	e := sc.st.e
	t := sc.resolveType(x.VarT)
	sc.bound++
	e.counter++
	var names []string
	var decls []string
	var guards []string
	v := Val{T: t}
	for _, c := range e.flatten(t) {
		n := q(fmt.Sprintf("%s%s$%d", x.Var, c.Path, e.counter))
		names = append(names, n)
		decls = append(decls, fmt.Sprintf("(%s %s)", n, smtSort(c.Sort)))
		v.C = append(v.C, n)
		if lo, hi, ok := intRange(c.T); ok && c.Sort == SInt {
			guards = append(guards, fmt.Sprintf("(and (<= %s %s) (<= %s %s))", lo, n, n, hi))
		}
	}
	saved, had := sc.vars[x.Var]
	sc.vars[x.Var] = v
	body := sc.evalBool(x.Args[0])
	if had {
		sc.vars[x.Var] = saved
	} else {
		delete(sc.vars, x.Var)
	}
	sc.bound--
	g := and(guards...)
	if x.Op == "forall" {
		if g != "true" {
			body = implies(g, body)
		}
		return mkBool(fmt.Sprintf("(forall (%s) %s)", strings.Join(decls, " "), body))
	}
	if g != "true" {
		body = and(g, body)
	}
	return mkBool(fmt.Sprintf("(exists (%s) %s)", strings.Join(decls, " "), body))
}
