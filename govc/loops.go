package main

import (
	"fmt"
	"go/token"
	"go/types"
	"sort"
	"strings"

	"golang.org/x/tools/go/ssa"
)

// enterLoopHeader cuts the loop at its header with the declared invariants.
func (st *State) enterLoopHeader(fr *Frame, from, target *ssa.BasicBlock, li *loopInfo) bool {
	e := st.e
	isBack := target.Dominates(from)
	ord := li.ordinal[target]
	var spec *LoopSpec
	if fr.contract != nil {
		spec = fr.contract.Loops[ord]
	}
	fnName := fr.fn.RelString(e.P.TPkg)
	st.enterBlock(fr, from, target)
	st.bindLoopVars(fr, target)
	evalInv := func(kind string, assert bool) {
		// implicit invariant of compiler-generated index loops (range over slice/array): -1 <= i and (i == -1 or i < len)
		if ai := st.rangeIndexInvariant(fr, target); ai != "" {
			if assert {
				st.oblige(kind, fmt.Sprintf("rangeindex@%s.loop%d", fnName, ord), st.e.curProps, ai, target.Instrs[0].Pos())
			} else {
				st.assume(ai)
			}
		}
		if spec == nil {
			return
		}
		for i, inv := range spec.Invariants {
			sc := st.specCtx(fr, fmt.Sprintf("%s loop %d invariant %s", fnName, ord, inv.Label))
			t := sc.evalBool(inv.Expr)
			label := inv.Label
			if label == "" {
				label = fmt.Sprintf("inv%d", i+1)
			}
			if assert {
				st.oblige(kind, fmt.Sprintf("%s@%s.loop%d", label, fnName, ord), inv.Props, t, target.Instrs[0].Pos())
			} else {
				st.assume(t)
			}
		}
	}
	if isBack {
		if spec != nil {
			for _, g := range spec.Ghosts {
				sc := st.specCtx(fr, fmt.Sprintf("%s loop %d ghost %s", fnName, ord, g.Name))
				idx, val := sc.eval(g.Index.Expr), sc.eval(g.Value.Expr)
				nm := "G|u|" + g.Name
				arr := st.arr(nm, "(Array Int Int)")
				st.setArr(nm, "(Array Int Int)", store(arr, idx.C[0], val.C[0]))
			}
		}
		if spec != nil {
			for i, cl := range spec.After {
				sc := st.specCtx(fr, fmt.Sprintf("%s loop %d afterbody %s", fnName, ord, cl.Label))
				label := cl.Label
				if label == "" {
					label = fmt.Sprintf("after%d", i+1)
				}
				st.oblige("loop-body", fmt.Sprintf("%s@%s.loop%d", label, fnName, ord), cl.Props, sc.evalBool(cl.Expr), target.Instrs[0].Pos())
			}
		}
		evalInv("inv-preserve", true)
		return false
	}
	if fr.cut[target] {
		e.unsupportedf("loop header %d of %s entered twice on one path", target.Index, fnName)
	}
	fr.cut[target] = true
	fr.loopEntry[ord] = st.snapshot()
	evalInv("inv-init", true)
	// havoc everything the loop may modify
	pats := e.writeSet(fr.fn, li.body[target])
	if spec != nil {
		pats = append(pats, spec.Modifies...)
		for _, g := range spec.Ghosts {
			pats = append(pats, "G|u|"+g.Name)
		}
	}
	allocs := false
	st.loopHavoc = true
	for _, p := range pats {
		if p == allocName {
			allocs = true
			continue
		}
		st.havoc(p)
	}
	st.loopHavoc = false
	if allocs {
		st.bumpAlloc()
	}
	for _, in := range target.Instrs {
		phi, ok := in.(*ssa.Phi)
		if !ok {
			break
		}
		nv := st.freshVal("loop."+phiName(phi), phi.Type())
		st.assumeAllocated(nv)
		fr.env[phi] = nv
	}
	st.bindLoopVars(fr, target)
	evalInv("", false)
	return true
}

func phiName(phi *ssa.Phi) string {
	if phi.Comment != "" {
		return sanitize(phi.Comment)
	}
	return phi.Name()
}

// bindLoopVars exposes loop-carried variables (by source name) and the loop's map iterator to invariants.
func (st *State) bindLoopVars(fr *Frame, header *ssa.BasicBlock) {
	for _, in := range header.Instrs {
		switch x := in.(type) {
		case *ssa.Phi:
			if x.Comment != "" {
				fr.specVars[x.Comment] = fr.env[x]
			}
		case *ssa.Next:
			if v, ok := fr.env[x.Iter]; ok {
				fr.specVars["$iter"] = v
			}
		}
	}
}

// ---- static write sets ----

// writeSet over-approximates the heap arrays / ghost variables a set of blocks may modify (as havoc patterns).
func (e *Engine) writeSet(fn *ssa.Function, blocks []*ssa.BasicBlock) []string {
	set := map[string]bool{}
	for _, b := range blocks {
		for _, in := range b.Instrs {
			e.instrWrites(fn, in, set)
		}
	}
	var out []string
	for k := range set {
		out = append(out, k)
	}
	sort.Strings(out)
	return out
}

func (e *Engine) fnWriteSet(fn *ssa.Function) []string {
	if ws, ok := e.wsCache[fn]; ok {
		return ws
	}
	if e.wsBusy[fn] {
		return nil
	}
	e.wsBusy[fn] = true
	ws := e.writeSet(fn, fn.Blocks)
	e.wsBusy[fn] = false
	e.wsCache[fn] = ws
	return ws
}

// addrPattern returns the havoc pattern written by a store through addr.
func (e *Engine) addrPattern(addr ssa.Value) string {
	switch a := addr.(type) {
	case *ssa.FieldAddr:
		path := ""
		var cur ssa.Value = a
		for {
			fa, ok := cur.(*ssa.FieldAddr)
			if !ok {
				break
			}
			st := fa.X.Type().Underlying().(*types.Pointer).Elem()
			f := st.Underlying().(*types.Struct).Field(fa.Field)
			if e.isEmbeddedObject(f) {
				return "H|" + e.P.relType(f.Type()) + "|" + path + "*"
			}
			path = "." + f.Name() + path
			if inner, ok := fa.X.(*ssa.FieldAddr); ok {
				cur = inner
				continue
			}
			return "H|" + e.P.relType(st) + "|" + path + "*"
		}
	case *ssa.IndexAddr:
		var et types.Type
		switch t := a.X.Type().Underlying().(type) {
		case *types.Slice:
			et = t.Elem()
		case *types.Pointer:
			et = t.Elem().Underlying().(*types.Array).Elem()
		}
		if et != nil {
			if _, isStruct := et.Underlying().(*types.Struct); isStruct && !isTimeTime(et) {
				return "H|" + e.P.relType(et) + "|*"
			}
			return "E|" + e.P.relType(et) + "|*"
		}
	}
	if pt, ok := addr.Type().Underlying().(*types.Pointer); ok {
		return "H|" + e.P.relType(pt.Elem()) + "|*"
	}
	return "H|*"
}

func (e *Engine) instrWrites(fn *ssa.Function, in ssa.Instruction, set map[string]bool) {
	switch x := in.(type) {
	case *ssa.Store:
		set[e.addrPattern(x.Addr)] = true
	case *ssa.MapUpdate:
		set["M|"+e.P.relType(x.Map.Type().Underlying().(*types.Map))+"|*"] = true

	case *ssa.Alloc, *ssa.MakeMap, *ssa.MakeSlice, *ssa.MakeChan, *ssa.MakeInterface, *ssa.Convert:
		set[allocName] = true
		if a, ok := x.(*ssa.Alloc); ok {
			et := a.Type().(*types.Pointer).Elem()
			if at, ok := et.Underlying().(*types.Array); ok {
				set["E|"+e.P.relType(at.Elem())+"|*"] = true
			} else {
				set["H|"+e.P.relType(et)+"|*"] = true
			}
		}
		if m, ok := x.(*ssa.MakeMap); ok {
			set["M|"+e.P.relType(m.Type().Underlying().(*types.Map))+"|*"] = true
		}
		if m, ok := x.(*ssa.MakeSlice); ok {
			et := m.Type().Underlying().(*types.Slice).Elem()
			set["E|"+e.P.relType(et)+"|*"] = true
		}
		if m, ok := x.(*ssa.MakeChan); ok {
			_ = m
			set[chanClosedName] = true
		}
		if m, ok := x.(*ssa.MakeInterface); ok {
			if len(e.flatten(m.X.Type())) > 1 {
				set["H|"+e.P.relType(m.X.Type())+"|*"] = true
			}
		}
		if c, ok := x.(*ssa.Convert); ok {
			if _, isSl := c.Type().Underlying().(*types.Slice); isSl {
				set["E|uint8|*"] = true
			}
		}
	case *ssa.MakeClosure:
		set[allocName] = true
	case *ssa.Range:
		set[fmt.Sprintf("G|it|%s.%s|*", fn.RelString(e.P.TPkg), x.Name())] = true
	case *ssa.Next:
		set["G|iterated"] = true
		if r, ok := x.Iter.(*ssa.Range); ok {
			set[fmt.Sprintf("G|it|%s.%s|*", fn.RelString(e.P.TPkg), r.Name())] = true
		}
	case *ssa.Call:
		e.callWrites(fn, &x.Call, set)
	case *ssa.Defer:
		e.callWrites(fn, &x.Call, set)
	case *ssa.Go:
		e.callWrites(fn, &x.Call, set)
		set["G|cnt|go:*"] = true
		set["G|arg|go:*"] = true
	}
}

func (e *Engine) callWrites(fn *ssa.Function, call *ssa.CallCommon, set map[string]bool) {
	if call.IsInvoke() {
		key := ifaceKey(e, call)
		if _, ok := ifaceModels[key]; ok {
			for _, w := range ifaceModelWrites[key] {
				set[w] = true
			}
			return
		}
		e.callOutWrites(key, set)
		// possibly devirtualised to package methods: include all package implementations
		for _, f := range e.P.Funcs {
			if f.Signature.Recv() != nil && f.Name() == call.Method.Name() && isPkgFunc(e.P, f) {
				if types.Implements(f.Signature.Recv().Type(), call.Value.Type().Underlying().(*types.Interface)) {
					for _, p := range e.calleeWrites(f) {
						set[p] = true
					}
				}
			}
		}
		return
	}
	switch v := call.Value.(type) {
	case *ssa.Builtin:
		switch v.Name() {
		case "delete":
			set["M|"+e.P.relType(call.Args[0].Type().Underlying().(*types.Map))+"|*"] = true
			set["G|removed"] = true
		case "append":
			et := call.Args[0].Type().Underlying().(*types.Slice).Elem()
			set[allocName] = true
			if _, isStruct := et.Underlying().(*types.Struct); isStruct && !isTimeTime(et) {
				set["H|"+e.P.relType(et)+"|*"] = true
			} else {
				set["E|"+e.P.relType(et)+"|*"] = true
			}
		case "copy":
			et := call.Args[0].Type().Underlying().(*types.Slice).Elem()
			set["E|"+e.P.relType(et)+"|*"] = true
		case "close":
			set[chanClosedName] = true
		}
		return
	case *ssa.Function:
		for _, p := range e.calleeWrites(v) {
			set[p] = true
		}
		if len(call.Args) > 0 {
			e.modelWrites(v, call, set)
		}
		return
	case *ssa.MakeClosure:
		for _, p := range e.calleeWrites(v.Fn.(*ssa.Function)) {
			set[p] = true
		}
		return
	}
	e.callOutWrites(callKind(e, call.Value), set)
	// a dynamic callee may be a package closure stored earlier (e.g. Trait.DeleteExpired): if a contract exists for the kind use it
}

func (e *Engine) callOutWrites(kind string, set map[string]bool) {
	set["G|cnt|"+kind] = true
	set["G|arg|"+kind+"|*"] = true
	set["G|res|"+kind+"|*"] = true
	set[allocName] = true
	if kind == "StatsTracker.Add" {
		set["G|metric"] = true
	}
	for _, w := range callOutExtraWrites[kind] {
		set[w] = true
	}
	for name, c := range e.ifaceSpecs {
		if name == kind || strings.HasPrefix(name, kind+" ") {
			for _, m := range e.expandFrames(c.Modifies) {
				set[strings.TrimPrefix(m, "new:")] = true
			}
		}
	}
}

func (e *Engine) calleeWrites(f *ssa.Function) []string {
	name := f.RelString(e.P.TPkg)
	if f.Origin() != nil {
		name = f.Origin().RelString(e.P.TPkg)
		if len(f.Blocks) == 0 {
			f = f.Origin()
		}
	}
	if _, ok := models[f.String()]; ok {
		return nil
	}
	if c := e.contracts[name]; c != nil && !c.Inline && len(c.Modifies) == 0 && !c.Pure {
		return []string{allocName, "H|*", "E|*", "M|*", "SM|*", "G|cnt|*", "G|arg|*", "G|res|*", "G|metric", "G|clock", "G|clk", "G|nclk", "G|rand", "G|delok", chanClosedName}
	}
	if c := e.contracts[name]; c != nil && !c.Inline {
		out := []string{allocName}
		for _, m := range e.expandFrames(c.Modifies) {
			out = append(out, strings.TrimPrefix(m, "new:"))
		}
		out = append(out, "G|cnt|"+f.Name(), "G|arg|"+f.Name()+"|*", "G|res|"+f.Name()+"|*")
		return out
	}
	if isPkgFunc(e.P, f) || f.Synthetic != "" {
		return e.fnWriteSet(f)
	}
	return []string{allocName}
}

// modelWrites: effects of modelled externals.
func (e *Engine) modelWrites(f *ssa.Function, call *ssa.CallCommon, set map[string]bool) {
	switch f.String() {
	case "sync/atomic.AddInt64", "sync/atomic.StoreInt64":
		set[e.addrPattern(call.Args[0])] = true
	case "time.Now", "time.Since":
		set["G|clock"] = true
		set["G|clk"] = true
		set["G|nclk"] = true
	case "math/rand.Float64":
		set["G|cnt|rand"] = true
		set["G|rand"] = true
	case "context.WithValue", "fmt.Errorf":
		set[allocName] = true
	case "errors.As":
		set["H|*"] = true
	case "runtime.ReadMemStats":
		set["H|runtime.MemStats|*"] = true
	case "hash/fnv.New64":
		set[hstName] = true
		set[allocName] = true
	case "(*encoding/gob.Decoder).Decode":
		set["G|gob|pos"] = true
		set["H|TraitEntry|*"] = true
		set["H|TraitEntryOf[V]|*"] = true
		set["E|byte|*"] = true
		set[allocName] = true
	case "(*encoding/gob.Encoder).Encode":
		for _, n := range []string{"K", "Vtag", "Vval", "E", "C", "len", "src", "idx"} {
			set["G|gob|"+n] = true
		}
	case "sort.Slice":
		set["H|*"] = true
		set["E|*"] = true
	case "(*net/url.URL).Query":
		set[qStateName] = true
		set[allocName] = true
	case "(net/url.Values).Set", "(net/url.Values).Add":
		set[qStateName] = true
	case "net/http.NewRequest", "net/url.Parse":
		set["H|net/http.Request|*"] = true
		set["H|net/url.URL|*"] = true
		set[allocName] = true
	}
	if len(f.String()) > 12 && f.String()[:12] == "(*sync.Map)." {
		set["SM|*"] = true
		set[allocName] = true
		set["G|removed"] = true
		set["G|iterated"] = true
	}
}

// rangeIndexInvariant recognises the SSA shape of `for i := range s`: phi #rangeindex; i+1 < L with L defined outside.
func (st *State) rangeIndexInvariant(fr *Frame, h *ssa.BasicBlock) string {
	var phi *ssa.Phi
	for _, in := range h.Instrs {
		if p, ok := in.(*ssa.Phi); ok && p.Comment == "rangeindex" {
			phi = p
		}
	}
	if phi == nil {
		return ""
	}
	iff, ok := h.Instrs[len(h.Instrs)-1].(*ssa.If)
	if !ok {
		return ""
	}
	cmp, ok := iff.Cond.(*ssa.BinOp)
	if !ok || cmp.Op != token.LSS {
		return ""
	}
	inc, ok := cmp.X.(*ssa.BinOp)
	if !ok || inc.Op != token.ADD || inc.X != phi {
		return ""
	}
	var bound string
	switch b := cmp.Y.(type) {
	case *ssa.Const:
		bound = st.constVal(b).C[0]
	default:
		v, ok := fr.env[cmp.Y]
		if !ok || len(v.C) != 1 {
			return ""
		}
		if in, isInstr := cmp.Y.(ssa.Instruction); isInstr && in.Block() != nil {
			for _, lb := range st.e.loopsOf(fr.fn).body[h] {
				if lb == in.Block() {
					return "" // bound recomputed inside the loop
				}
			}
		}
		bound = v.C[0]
	}
	ri := fr.env[phi].C[0]
	return fmt.Sprintf("(and (>= %s (- 1)) (or (= %s (- 1)) (< %s %s)) (<= %s 281474976710656))", ri, ri, ri, bound, bound)
}
