package main

import (
	"fmt"
	"go/token"
	"go/types"
	"sort"
	"strings"

	"golang.org/x/tools/go/ssa"
)

// pushFrame enters fn with the given arguments.
func (st *State) pushFrame(fn *ssa.Function, args []Val, bindings []Val, call ssa.Instruction) *Frame {
	if len(fn.Blocks) == 0 {
		st.e.unsupportedf("function %s has no body", fn.String())
	}
	if len(st.frames) > 40 {
		st.e.unsupportedf("call depth exceeded at %s", fn.String())
	}
	fr := &Frame{fn: fn, env: map[ssa.Value]Val{}, block: fn.Blocks[0], bindings: bindings, call: call, cut: map[*ssa.BasicBlock]bool{}, loopEntry: map[int]*Snapshot{}}
	if len(args) != len(fn.Params) {
		st.e.unsupportedf("arity mismatch calling %s: %d vs %d", fn.String(), len(args), len(fn.Params))
	}
	fr.specVars = map[string]Val{}
	for i, p := range fn.Params {
		fr.env[p] = args[i]
		fr.specVars[p.Name()] = args[i]
	}
	for i, fv := range fn.FreeVars {
		if i < len(bindings) {
			fr.specVars[fv.Name()] = bindings[i]
		}
	}
	fr.params = args
	fr.old = st.snapshot()
	fr.contract = st.e.contracts[fn.RelString(st.e.P.TPkg)]
	st.frames = append(st.frames, fr)
	return fr
}

// run executes all paths starting from st.
func (e *Engine) run(st *State) {
	e.worklist = append(e.worklist, st)
	for len(e.worklist) > 0 {
		s := e.worklist[len(e.worklist)-1]
		e.worklist = e.worklist[:len(e.worklist)-1]
		e.runPath(s)
	}
}

func (e *Engine) runPath(st *State) {
	defer func() {
		if r := recover(); r != nil {
			if u, ok := r.(unsupportedErr); ok {
				e.unsupported[e.curFn] = append(e.unsupported[e.curFn], u.msg)
				return
			}
			if u, ok := r.(specErr); ok {
				e.unsupported[e.curFn] = append(e.unsupported[e.curFn], "contract error: "+u.msg)
				return
			}
			panic(r)
		}
	}()
	steps := 0
	for len(st.frames) > 0 && !st.dead {
		steps++
		if steps > 200000 {
			e.unsupportedf("step limit")
		}
		if !st.step() {
			break
		}
	}
	e.finishPath(st)
}

func (e *Engine) finishPath(st *State) {
	e.paths++
	if e.paths > e.maxPaths {
		e.unsupportedf("path cap %d exceeded", e.maxPaths)
	}
	e.scripts = append(e.scripts, st.script)
	if s := e.fnStats[e.curFn]; s != nil {
		s.Paths++
	}
}

func (st *State) fork() *State {
	n := st.clone()
	st.e.worklist = append(st.e.worklist, n)
	return n
}

// step executes one instruction; returns false when the path ends.
func (st *State) step() bool {
	fr := st.top()
	if fr.idx >= len(fr.block.Instrs) {
		st.e.unsupportedf("fell off block %d of %s", fr.block.Index, fr.fn.Name())
	}
	in := fr.block.Instrs[fr.idx]
	fr.idx++
	return st.exec(fr, in)
}

func (st *State) jump(fr *Frame, target *ssa.BasicBlock) bool {
	from := fr.block
	li := st.e.loopsOf(fr.fn)
	if _, isHeader := li.body[target]; isHeader {
		return st.enterLoopHeader(fr, from, target, li)
	}
	st.enterBlock(fr, from, target)
	return true
}

// enterBlock moves to target and evaluates its phis.
func (st *State) enterBlock(fr *Frame, from, target *ssa.BasicBlock) {
	pi := -1
	for i, p := range target.Preds {
		if p == from {
			pi = i
			break
		}
	}
	var vals []Val
	var phis []*ssa.Phi
	for _, in := range target.Instrs {
		phi, ok := in.(*ssa.Phi)
		if !ok {
			break
		}
		phis = append(phis, phi)
		vals = append(vals, st.val(fr, phi.Edges[pi]))
	}
	for i, phi := range phis {
		v := vals[i]
		v.T = phi.Type()
		fr.env[phi] = v
	}
	fr.prev = from
	fr.block = target
	fr.idx = len(phis)
}

func (st *State) exec(fr *Frame, in ssa.Instruction) bool {
	e := st.e
	switch x := in.(type) {
	case *ssa.DebugRef:
		st.debugRef(fr, x)
		return true
	case *ssa.Alloc:
		et := x.Type().(*types.Pointer).Elem()
		r := st.newRef(allocPrefix(x))
		var p *Ptr
		if _, ok := et.Underlying().(*types.Array); ok {
			p = &Ptr{Kind: PArr, Root: r, T: et}
			// zero-initialised: elements read before written are zero. Modelled lazily: element arrays of a fresh base
			st.zeroArray(r, et.Underlying().(*types.Array))
		} else {
			p = &Ptr{Kind: PObj, Root: r, RootT: et, T: et}
			st.storePtr(p, e.zero(et), x.Pos())
			isParam := false
			for _, pp := range fr.fn.Params {
				if pp.Name() == x.Comment {
					isParam = true // in contracts a parameter denotes its entry value, also when its address is taken
				}
			}
			if x.Comment != "" && !isParam && x.Comment != "complit" && x.Comment != "varargs" && x.Comment != "slicelit" && !strings.HasPrefix(x.Comment, "new") {
				// the cell of a named local whose address is taken (captured by a closure): in contracts the name
				// denotes the current content of the cell
				if fr.specAddrs == nil {
					fr.specAddrs = map[string]*Ptr{}
				}
				if fr.cellVars == nil {
					fr.cellVars = map[string]bool{}
				}
				fr.specAddrs[x.Comment] = p
				fr.cellVars[x.Comment] = true
				delete(fr.specVars, x.Comment)
			}
		}
		fr.env[x] = Val{T: x.Type(), C: []string{r}, P: p}
	case *ssa.Phi:
		e.unsupportedf("phi outside block entry")
	case *ssa.BinOp:
		fr.env[x] = st.binop(x.Op, st.val(fr, x.X), st.val(fr, x.Y), x.Type(), x.Pos())
	case *ssa.UnOp:
		fr.env[x] = st.unop(fr, x)
	case *ssa.Convert:
		fr.env[x] = st.convert(st.val(fr, x.X), x.Type(), x.Pos())
	case *ssa.ChangeType:
		v := st.val(fr, x.X)
		if len(v.C) == 1 && len(st.e.flatten(x.Type())) == 2 {
			v = st.makeInterface(v, x.Type())
		}
		v.T = x.Type()
		fr.env[x] = v
	case *ssa.ChangeInterface:
		v := st.val(fr, x.X)
		if len(v.C) == 1 {
			v = st.makeInterface(v, x.Type())
		}
		v.T = x.Type()
		fr.env[x] = v
	case *ssa.MakeInterface:
		fr.env[x] = st.makeInterface(st.val(fr, x.X), x.Type())
	case *ssa.TypeAssert:
		return st.typeAssert(fr, x)
	case *ssa.Extract:
		tv := st.val(fr, x.Tuple)
		tt := x.Tuple.Type().(*types.Tuple)
		lo, hi := e.tupleRange(tt, x.Index)
		v := Val{T: x.Type(), C: tv.C[lo:hi]}
		if tv.P != nil && x.Index == 0 {
			v.P = tv.P
		}
		if tv.It != nil {
			v.It = tv.It
		}
		fr.env[x] = v
	case *ssa.FieldAddr:
		base := st.val(fr, x.X)
		p := st.asPtr(base)
		if ct := e.P.canonT(p.T); ct != p.T {
			// a field of an instantiated generic struct: the object lives in the layout of the generic type
			cp := *p
			cp.T = ct
			if cp.Path == "" {
				cp.RootT = ct
			}
			p = &cp
		}
		stt := p.T.Underlying().(*types.Struct)
		f := stt.Field(x.Field)
		if p.Kind != PObj {
			e.unsupportedf("FieldAddr on non-object pointer")
		}
		st.checkNonNil(p.Root, x.Pos(), "fieldaddr")
		np := &Ptr{Kind: PObj, Root: p.Root, RootT: p.RootT, Path: p.Path + "." + f.Name(), T: f.Type()}
		if e.isEmbeddedObject(f) {
			// an embedded struct of the package is an object of its own (see leafLoc)
			np = &Ptr{Kind: PObj, Root: st.ptrTerm(np), RootT: f.Type(), T: f.Type()}
			st.nonnil[np.Root] = true
			if st.private[p.Root] {
				st.private[np.Root] = true
			}
		}
		if at, ok := f.Type().Underlying().(*types.Array); ok {
			// embedded array: its backing store is addressed by an injective function of the parent
			_ = at
			np = &Ptr{Kind: PArr, Root: st.ptrTerm(np), T: f.Type()}
			if st.private[p.Root] {
				st.private[np.Root] = true // an array embedded in an object this call allocated and has not shared
			}
		}
		fr.env[x] = Val{T: x.Type(), C: []string{st.ptrTerm(np)}, P: np}
	case *ssa.Field:
		sv := st.val(fr, x.X)
		lo, hi := e.fieldRange(x.X.Type(), x.Field)
		fr.env[x] = Val{T: x.Type(), C: sv.C[lo:hi]}
	case *ssa.IndexAddr:
		fr.env[x] = st.indexAddr(fr, x)
	case *ssa.Index:
		st.execIndex(fr, x)
	case *ssa.Lookup:
		st.execLookup(fr, x)
	case *ssa.Slice:
		st.execSlice(fr, x)
	case *ssa.Store:
		addr := st.val(fr, x.Addr)
		v := st.val(fr, x.Val)
		p := st.asPtr(addr)
		st.guardAccess(fr, p, true, x.Pos())
		st.storePtr(p, v, x.Pos())
		if p.Kind == PObj {
			st.publish(v, p.Root)
		} else {
			st.publish(v, "")
		}
	case *ssa.MakeMap:
		fr.env[x] = st.makeMap(x.Type())
	case *ssa.MakeSlice:
		fr.env[x] = st.makeSlice(x.Type(), st.val(fr, x.Len), st.val(fr, x.Cap), x.Pos())
	case *ssa.MakeChan:
		r := st.newRef("chan")
		st.setChanClosed(r, "false")
		fr.env[x] = Val{T: x.Type(), C: []string{r}}
	case *ssa.MakeClosure:
		fn := x.Fn.(*ssa.Function)
		var bs []Val
		for _, b := range x.Bindings {
			bs = append(bs, st.val(fr, b))
		}
		id := st.fresh("closure", SInt)
		st.assume(fmt.Sprintf("(> %s 1000)", id))
		// closure identities are ghost names: two creations on one path are told apart
		var prev []string
		for p := range st.funcs {
			prev = append(prev, p)
		}
		sort.Strings(prev)
		for _, p := range prev {
			st.assume(not(eq(id, p)))
		}
		fv := &FuncV{Fn: fn, Bindings: bs}
		st.funcs[id] = fv
		fr.env[x] = Val{T: x.Type(), C: []string{id}, F: fv}
	case *ssa.MapUpdate:
		st.guardMapAccess(fr, st.val(fr, x.Map), true, x.Pos())
		st.mapUpdate(st.val(fr, x.Map), st.val(fr, x.Key), st.val(fr, x.Value), x.Pos())
		st.publish(st.val(fr, x.Value), st.val(fr, x.Map).C[0])
	case *ssa.Range:
		st.execRange(fr, x)
	case *ssa.Next:
		return st.execNext(fr, x)
	case *ssa.Call:
		return st.execCall(fr, x, &x.Call, x.Pos())
	case *ssa.Defer:
		var args []Val
		for _, a := range x.Call.Args {
			args = append(args, st.val(fr, a))
		}
		d := Deferred{Call: &x.Call, Args: args, Pos: x.Pos()}
		if !x.Call.IsInvoke() {
			d.Fn = st.val(fr, x.Call.Value)
		} else {
			d.Fn = st.val(fr, x.Call.Value)
		}
		fr.defers = append(fr.defers, d)
	case *ssa.RunDefers:
		if len(fr.defers) > 0 {
			d := fr.defers[len(fr.defers)-1]
			fr.defers = fr.defers[:len(fr.defers)-1]
			fr.idx-- // come back to rundefers after the deferred call
			return st.callValue(fr, nil, d.Call, d.Fn, d.Args, d.Pos, true)
		}
	case *ssa.Go:
		return st.execGo(fr, x)
	case *ssa.If:
		c := st.val(fr, x.Cond).C[0]
		tb, fb := fr.block.Succs[0], fr.block.Succs[1]
		if c == "true" {
			return st.jump(fr, tb)
		}
		if c == "false" {
			return st.jump(fr, fb)
		}
		other := st.fork()
		ofr := other.top()
		other.assume(not(c))
		other.path = append(other.path, fmt.Sprintf("%s.%d:F", fnShort(fr.fn), fr.block.Index))
		if !other.jump(ofr, fb) {
			other.dead = true
		}
		st.assume(c)
		st.path = append(st.path, fmt.Sprintf("%s.%d:T", fnShort(fr.fn), fr.block.Index))
		return st.jump(fr, tb)
	case *ssa.Jump:
		return st.jump(fr, fr.block.Succs[0])
	case *ssa.Return:
		var res []Val
		for _, r := range x.Results {
			res = append(res, st.val(fr, r))
		}
		return st.doReturn(fr, res, x.Pos())
	case *ssa.Panic:
		return st.execPanic(fr, x)
	case *ssa.Send:
		e.unsupportedf("channel send")
	case *ssa.Select:
		e.unsupportedf("select")
	default:
		e.unsupportedf("instruction %T: %s", in, in.String())
	}
	return true
}

func allocPrefix(x *ssa.Alloc) string {
	if x.Comment != "" {
		return "new." + sanitize(x.Comment)
	}
	return "new"
}

func fnShort(f *ssa.Function) string {
	n := f.Name()
	return n
}

// zeroArray: a freshly allocated array of non-struct elements reads as zero.
func (st *State) zeroArray(base string, at *types.Array) {
	e := st.e
	et := at.Elem()
	if _, ok := et.Underlying().(*types.Struct); ok && !isTimeTime(et) {
		return
	}
	z := e.zero(et)
	for i, c := range e.flatten(et) {
		name := elemsName(e, et, c.Path)
		e.noteRef(name, c)
		a := st.arr(name, arr2Sort(c.Sort))
		st.setArr(name, arr2Sort(c.Sort), store(a, base, fmt.Sprintf("((as const (Array Int %s)) %s)", smtSort(c.Sort), z.C[i])))
	}
}

// ---- returning ----

func (st *State) doReturn(fr *Frame, res []Val, pos token.Pos) bool {
	e := st.e
	st.frames = st.frames[:len(st.frames)-1]
	if len(st.frames) == 0 {
		// top-level function under contract
		st.checkPost(fr, res, pos)
		return false
	}
	if fr.rangeRet != nil {
		return st.rangeReturn(fr, res)
	}
	if fr.syncRet != nil {
		*fr.syncRet = res // a callback run to completion by a model (runSync)
		return true
	}
	caller := st.top()
	if fr.isDefer {
		return true // caller resumes at its rundefers instruction
	}
	if fr.call != nil {
		if v, ok := fr.call.(ssa.Value); ok {
			caller.env[v] = packResults(e, v.Type(), res)
		}
	}
	return true
}

func packResults(e *Engine, t types.Type, res []Val) Val {
	if len(res) == 1 {
		r := res[0]
		if _, isTuple := t.(*types.Tuple); !isTuple && t != nil {
			r = e.unboxInst(t, r)
		}
		return r
	}
	v := Val{T: t}
	tt, _ := t.(*types.Tuple)
	for i, r := range res {
		if tt != nil && i < tt.Len() {
			r = e.unboxInst(tt.At(i).Type(), r)
		}
		v.C = append(v.C, r.C...)
	}
	if len(res) > 0 && res[0].P != nil {
		v.P = res[0].P
	}
	return v
}

// ---- operators ----

func isFloat(t types.Type) bool {
	b, ok := t.Underlying().(*types.Basic)
	return ok && b.Info()&types.IsFloat != 0
}
func isInteger(t types.Type) bool {
	b, ok := t.Underlying().(*types.Basic)
	return ok && b.Info()&types.IsInteger != 0
}
func isString(t types.Type) bool {
	b, ok := t.Underlying().(*types.Basic)
	return ok && b.Info()&types.IsString != 0
}
func isBool(t types.Type) bool {
	b, ok := t.Underlying().(*types.Basic)
	return ok && b.Info()&types.IsBoolean != 0
}

func (st *State) binop(op token.Token, a, b Val, rt types.Type, pos token.Pos) Val {
	e := st.e
	out := func(s string) Val { return Val{T: rt, C: []string{s}} }
	switch op {
	case token.EQL, token.NEQ:
		t := st.valuesEqual(a, b)
		if op == token.NEQ {
			t = not(t)
		}
		return out(t)
	}
	if isTimeTime(a.T) {
		e.unsupportedf("binop on time.Time")
	}
	x, y := a.C[0], b.C[0]
	if isFloat(a.T) {
		switch op {
		case token.ADD:
			return out(st.roundFloat(fmt.Sprintf("(+ %s %s)", x, y)))
		case token.SUB:
			return out(st.roundFloat(fmt.Sprintf("(- %s %s)", x, y)))
		case token.MUL:
			return out(st.roundFloat(fmt.Sprintf("(* %s %s)", x, y)))
		case token.QUO:
			// float division by zero yields Inf/NaN: outside the real model
			if c := e.contracts[e.curFn]; c != nil && c.Flags["floatinf"] == "havoc" {
				// declared for functions where such a quotient only feeds log arguments: the result of a division by
				// zero is an arbitrary value
				e.assumeUsed("float division by zero yields an arbitrary value in " + e.curFn + " (flag floatinf havoc): the quotient only feeds log arguments")
				return out(ite(eq(y, "0.0"), st.fresh("finf", SReal), st.roundFloat(fmt.Sprintf("(/ %s %s)", x, y))))
			}
			st.oblige("safety", "fdiv-zero", e.curProps, not(eq(y, "0.0")), pos)
			return out(st.roundFloat(fmt.Sprintf("(/ %s %s)", x, y)))
		case token.LSS:
			return out(fmt.Sprintf("(< %s %s)", x, y))
		case token.LEQ:
			return out(fmt.Sprintf("(<= %s %s)", x, y))
		case token.GTR:
			return out(fmt.Sprintf("(> %s %s)", x, y))
		case token.GEQ:
			return out(fmt.Sprintf("(>= %s %s)", x, y))
		}
		e.unsupportedf("float op %s", op)
	}
	if isString(a.T) {
		switch op {
		case token.ADD:
			if x == "0" {
				return out(y)
			}
			if y == "0" {
				return out(x)
			}
			return out(fmt.Sprintf("(strcat %s %s)", x, y))
		}
		e.unsupportedf("string op %s", op)
	}
	if isBool(a.T) {
		switch op {
		case token.LAND, token.AND:
			return out(and(x, y))
		case token.LOR, token.OR:
			return out(or(x, y))
		}
	}
	switch op {
	case token.ADD:
		return out(wrapIfNeeded(rt, fmt.Sprintf("(+ %s %s)", x, y), x, y))
	case token.SUB:
		return out(wrapIfNeeded(rt, fmt.Sprintf("(- %s %s)", x, y), x, y))
	case token.MUL:
		return out(wrapIfNeeded(rt, fmt.Sprintf("(* %s %s)", x, y), x, y))
	case token.QUO:
		st.oblige("safety", "div-zero", e.curProps, not(eq(y, "0")), pos)
		return out(wrapIfNeeded(rt, fmt.Sprintf("(godiv %s %s)", x, y), x, y))
	case token.REM:
		st.oblige("safety", "div-zero", e.curProps, not(eq(y, "0")), pos)
		if _, signed, ok := bitsOf(rt); ok && !signed {
			return out(fmt.Sprintf("(mod %s %s)", x, y))
		}
		return out(fmt.Sprintf("(gomod %s %s)", x, y))
	case token.LSS:
		return out(fmt.Sprintf("(< %s %s)", x, y))
	case token.LEQ:
		return out(fmt.Sprintf("(<= %s %s)", x, y))
	case token.GTR:
		return out(fmt.Sprintf("(> %s %s)", x, y))
	case token.GEQ:
		return out(fmt.Sprintf("(>= %s %s)", x, y))
	case token.XOR, token.AND, token.OR, token.SHL, token.SHR, token.AND_NOT:
		// bit operations are abstracted by uninterpreted functions (commutativity etc. not assumed)
		f := map[token.Token]string{token.XOR: "bvxor64", token.AND: "bvand64", token.OR: "bvor64", token.SHL: "bvshl64", token.SHR: "bvshr64", token.AND_NOT: "bvandnot64"}[op]
		r := fmt.Sprintf("(%s %s %s)", f, x, y)
		if lo, hi, ok := intRange(rt); ok {
			st.assume(fmt.Sprintf("(and (<= %s %s) (<= %s %s))", lo, r, r, hi))
		}
		return out(r)
	}
	e.unsupportedf("binop %s", op)
	return Val{}
}

// wrapIfNeeded applies two's complement wrap-around to integer arithmetic (exact Go semantics).
func wrapIfNeeded(t types.Type, term, x, y string) string {
	return wrapTerm(t, term)
}

// roundFloat models IEEE rounding of an exact real result: relative error at most 2^-53.
func (st *State) roundFloat(exact string) string {
	r := st.fresh("fl", SReal)
	ex := st.fresh("ex", SReal)
	st.assume(eq(ex, exact))
	// |r - ex| <= |ex| * 2^-53, and rounding is exact on zero
	st.assume(fmt.Sprintf("(and (<= (- %s %s) (* (absr %s) ulp53)) (<= (- %s %s) (* (absr %s) ulp53)))", r, ex, ex, ex, r, ex))
	st.e.assumeUsed("float64 arithmetic modelled over the reals with relative rounding error <= 2^-53 per operation (no NaN/Inf/subnormals)")
	return r
}

func (st *State) valuesEqual(a, b Val) string {
	e := st.e
	// nil comparisons for slices: compare base only
	if _, ok := a.T.Underlying().(*types.Slice); ok {
		return eq(a.C[0], b.C[0])
	}
	if _, ok := b.T.Underlying().(*types.Slice); ok {
		return eq(a.C[0], b.C[0])
	}
	if len(a.C) != len(b.C) {
		// interface vs concrete comparison
		if types.IsInterface(a.T) && !types.IsInterface(b.T) {
			b = st.makeInterface(b, a.T)
		} else if types.IsInterface(b.T) && !types.IsInterface(a.T) {
			a = st.makeInterface(a, b.T)
		} else {
			e.unsupportedf("comparison of %s and %s", a.T, b.T)
		}
	}
	var cs []string
	for i := range a.C {
		cs = append(cs, eq(a.C[i], b.C[i]))
	}
	if len(cs) == 0 {
		return "true"
	}
	return and(cs...)
}

func (st *State) unop(fr *Frame, x *ssa.UnOp) Val {
	e := st.e
	switch x.Op {
	case token.MUL: // load
		if x.Referrers() != nil && len(*x.Referrers()) == 0 {
			return Val{T: x.Type()}
		}
		if _, ok := x.Type().Underlying().(*types.Array); ok {
			// whole-array loads are only supported when unused or used by range-over-array length
			return Val{T: x.Type()}
		}
		p := st.asPtr(st.val(fr, x.X))
		st.guardAccess(fr, p, false, x.Pos())
		lv := st.loadPtr(p, x.Pos())
		st.noteMapOwner(p, lv)
		st.noteChanOwner(p, lv)
		return lv
	case token.NOT:
		return Val{T: x.Type(), C: []string{not(st.val(fr, x.X).C[0])}}
	case token.SUB:
		v := st.val(fr, x.X)
		if isFloat(v.T) {
			return Val{T: x.Type(), C: []string{fmt.Sprintf("(- %s)", v.C[0])}}
		}
		return Val{T: x.Type(), C: []string{wrapTerm(x.Type(), fmt.Sprintf("(- %s)", v.C[0]))}}
	case token.ARROW:
		return st.chanRecv(fr, x)
	case token.XOR:
		v := st.val(fr, x.X)
		return Val{T: x.Type(), C: []string{fmt.Sprintf("(bvnot64 %s)", v.C[0])}}
	}
	e.unsupportedf("unop %s", x.Op)
	return Val{}
}

func (st *State) convert(v Val, to types.Type, pos token.Pos) Val {
	e := st.e
	from := v.T
	switch {
	case isInteger(from) && isInteger(to):
		fb, fs, _ := bitsOf(from)
		tb, ts, _ := bitsOf(to)
		if fb <= tb && fs == ts || (!fs && ts && fb < tb) {
			return Val{T: to, C: v.C}
		}
		return Val{T: to, C: []string{wrapTerm(to, v.C[0])}}
	case isInteger(from) && isFloat(to):
		// exact when |x| < 2^53, else rounded
		// integers of magnitude up to 2^53 convert exactly
		r := st.roundFloat(fmt.Sprintf("(to_real %s)", v.C[0]))
		st.assume(fmt.Sprintf("(=> (and (<= (- 9007199254740992) %s) (<= %s 9007199254740992)) (= %s (to_real %s)))", v.C[0], v.C[0], r, v.C[0]))
		return Val{T: to, C: []string{r}}
	case isFloat(from) && isInteger(to):
		r := st.fresh("f2i", SInt)
		x := v.C[0]
		lo, hi, _ := intRange(to)
		// Go: the result of converting an out-of-range float is implementation-defined: demand the range
		st.oblige("safety", "f2i-range", e.curProps, fmt.Sprintf("(and (< (- (to_real %s) 1.0) %s) (< %s (+ (to_real %s) 1.0)))", lo, x, x, hi), pos)
		st.assume(fmt.Sprintf("(ite (>= %s 0.0) (and (<= (to_real %s) %s) (< %s (+ (to_real %s) 1.0))) (and (>= (to_real %s) %s) (> %s (- (to_real %s) 1.0))))", x, r, x, x, r, r, x, x, r))
		return Val{T: to, C: []string{r}}
	case isFloat(from) && isFloat(to):
		return Val{T: to, C: v.C}
	case isString(to):
		if sl, ok := from.Underlying().(*types.Slice); ok {
			_ = sl
			return Val{T: to, C: []string{st.bytesOf(v)}}
		}
		if isString(from) {
			return Val{T: to, C: v.C}
		}
		if isInteger(from) {
			return Val{T: to, C: []string{fmt.Sprintf("(runestr %s)", v.C[0])}}
		}
	case isString(from):
		if sl, ok := to.Underlying().(*types.Slice); ok {
			// []byte(s): fresh backing store holding the bytes of s
			base := st.newRef("bytes")
			n := fmt.Sprintf("(strlen %s)", v.C[0])
			res := Val{T: to, C: []string{base, "0", n, n}}
			_ = sl
			st.assume(eq(st.bytesOf(res), v.C[0]))
			return res
		}
	}
	if types.Identical(from.Underlying(), to.Underlying()) {
		return Val{T: to, C: v.C, P: v.P, F: v.F}
	}
	if _, ok := to.Underlying().(*types.Pointer); ok {
		return Val{T: to, C: v.C, P: v.P}
	}
	e.unsupportedf("convert %s -> %s", from, to)
	return Val{}
}

// bytesOf returns the abstract content (Str) of a byte slice value.
func (st *State) bytesOf(v Val) string {
	e := st.e
	et := v.T.Underlying().(*types.Slice).Elem()
	a := st.arr(elemsName(e, et, ""), arr2Sort(SInt))
	st.instantiateForArray(elemsName(e, et, ""), v.C[0])
	// nil/empty slice has empty content
	return ite(eq(v.C[2], "0"), "0", fmt.Sprintf("(bytesof (select %s %s) %s %s)", a, v.C[0], v.C[1], v.C[2]))
}

// ---- interfaces ----

func (st *State) makeInterface(v Val, it types.Type) Val {
	e := st.e
	if types.IsInterface(v.T) {
		if _, isTP := v.T.(*types.TypeParam); !isTP {
			v.T = it
			return v
		}
	}
	tag := e.typeTag(v.T)
	var payload string
	comps := e.flatten(v.T)
	switch {
	case len(comps) == 0:
		payload = "0"
	case len(comps) == 1:
		switch comps[0].Sort {
		case SBool:
			payload = ite(v.C[0], "1", "0")
		case SReal:
			payload = fmt.Sprintf("(boxreal %s)", v.C[0])
		default:
			payload = v.C[0]
		}
		if _, isPtr := v.T.Underlying().(*types.Pointer); isPtr && v.P != nil && v.P.Kind == PObj && v.P.Path != "" {
			e.unsupportedf("interior pointer escapes into interface")
		}
	default:
		// struct / slice payload: boxed in a fresh immutable cell
		r := st.newRef("box")
		st.storePtr(&Ptr{Kind: PObj, Root: r, RootT: v.T, T: v.T}, v, token.NoPos)
		payload = r
		if n, ok := v.T.(*types.Named); ok && n.Obj().Name() == "detachedContext" && n.Obj().Pkg() == e.P.TPkg && len(v.C) == 2 {
			// by the contract of (detachedContext).Value (C06.detached.value): Value(k) == parent.Value(k) for every key
			st.assume(fmt.Sprintf("(forall ((kt Int) (kv Int)) (! (and (= (ctxval_tag %s %s kt kv) (ctxval_tag %s %s kt kv)) (= (ctxval_val %s %s kt kv) (ctxval_val %s %s kt kv))) :pattern ((ctxval_tag %s %s kt kv)) :pattern ((ctxval_val %s %s kt kv))))",
				tag, r, v.C[0], v.C[1], tag, r, v.C[0], v.C[1], tag, r, tag, r))
			e.assumeUsed("a detachedContext value answers Value(k) like its parent (contract of (detachedContext).Value, verified: C06.detached.value)")
		}
	}
	res := Val{T: it, C: []string{tag, payload}}
	return res
}

// unbox reads the payload of an interface value as concrete type t.
func (st *State) unbox(payload string, t types.Type) Val {
	e := st.e
	comps := e.flatten(t)
	switch {
	case len(comps) == 0:
		return Val{T: t}
	case len(comps) == 1:
		switch comps[0].Sort {
		case SBool:
			return Val{T: t, C: []string{eq(payload, "1")}}
		case SReal:
			return Val{T: t, C: []string{fmt.Sprintf("(unboxreal %s)", payload)}}
		}
		v := Val{T: t, C: []string{payload}}
		return v
	}
	return st.loadPtrQuiet(&Ptr{Kind: PObj, Root: payload, RootT: t, T: t})
}

func (st *State) loadPtrQuiet(p *Ptr) Val {
	st.nonnil[p.Root] = true
	return st.loadPtr(p, token.NoPos)
}

func (st *State) typeAssert(fr *Frame, x *ssa.TypeAssert) bool {
	e := st.e
	v := st.val(fr, x.X)
	if _, isTP := v.T.(*types.TypeParam); isTP {
		e.unsupportedf("type assertion on type parameter value")
	}
	tag, payload := v.C[0], v.C[1]
	at := x.AssertedType
	var ok string
	var res Val
	if types.IsInterface(at) {
		// interface-to-interface: the dynamic type implements at. Decided statically when the tag is concrete.
		ok = st.implementsTerm(tag, at)
		res = Val{T: at, C: []string{tag, payload}}
	} else {
		ok = eq(tag, e.typeTag(at))
		res = st.unbox(payload, at)
	}
	if x.CommaOk {
		// value is zero when !ok
		z := e.zero(at)
		out := Val{T: x.Type()}
		for i := range res.C {
			out.C = append(out.C, ite(ok, res.C[i], z.C[i]))
		}
		out.C = append(out.C, ok)
		fr.env[x] = out
		return true
	}
	st.oblige("safety", "typeassert", e.curProps, ok, x.Pos())
	fr.env[x] = res
	return true
}

// implementsTerm: does the dynamic type with this tag implement interface it?
func (st *State) implementsTerm(tag string, it types.Type) string {
	e := st.e
	iface := it.Underlying().(*types.Interface)
	if iface.NumMethods() == 0 {
		return not(eq(tag, "0"))
	}
	var id int
	if _, err := fmt.Sscanf(tag, "%d", &id); err == nil && !strings.HasPrefix(tag, "(") {
		if id == 0 {
			return "false"
		}
		if t, ok := e.tagTypes[id]; ok {
			if types.Implements(t, iface) {
				return "true"
			}
			return "false"
		}
	}
	return fmt.Sprintf("(and (not (= %s 0)) (implements %s %s))", tag, tag, e.strLit("iface:"+e.P.relType(it)))
}

// ---- indexing, slices ----

func (st *State) indexAddr(fr *Frame, x *ssa.IndexAddr) Val {
	e := st.e
	base := st.val(fr, x.X)
	idx := st.val(fr, x.Index).C[0]
	var baseTerm, off, ln string
	var et types.Type
	switch t := x.X.Type().Underlying().(type) {
	case *types.Slice:
		baseTerm, off, ln = base.C[0], base.C[1], base.C[2]
		et = t.Elem()
	case *types.Pointer:
		at := t.Elem().Underlying().(*types.Array)
		p := st.asPtr(base)
		if p.Kind != PArr {
			e.unsupportedf("IndexAddr on non-array pointer")
		}
		baseTerm, off, ln = p.Root, "0", fmt.Sprint(at.Len())
		et = at.Elem()
		st.checkNonNil(baseTerm, x.Pos(), "indexaddr")
	default:
		e.unsupportedf("IndexAddr on %s", x.X.Type())
	}
	st.oblige("safety", "index", e.curProps, fmt.Sprintf("(and (<= 0 %s) (< %s %s))", idx, idx, ln), x.Pos())
	pos := idx
	if off != "0" {
		pos = fmt.Sprintf("(slot %s %s)", off, idx)
	}
	var p *Ptr
	if _, isStruct := et.Underlying().(*types.Struct); isStruct && !isTimeTime(et) && !e.opaqueStruct(et) {
		root := fmt.Sprintf("(el %s %s)", baseTerm, pos)
		st.nonnil[root] = true
		st.assume(fmt.Sprintf("(and (= (el_base %s) %s) (= (el_idx %s) %s) (< %s (- 1000)))", root, baseTerm, root, pos, root))
		if st.private[baseTerm] {
			st.private[root] = true
		}
		p = &Ptr{Kind: PObj, Root: root, RootT: et, T: et}
	} else if e.opaqueStruct(et) {
		root := fmt.Sprintf("(el %s %s)", baseTerm, pos)
		st.nonnil[root] = true
		p = &Ptr{Kind: PObj, Root: root, RootT: et, T: et}
	} else {
		p = &Ptr{Kind: PElem, Root: baseTerm, Idx: pos, T: et}
	}
	return Val{T: x.Type(), C: []string{st.ptrTerm(p)}, P: p}
}

func (st *State) execIndex(fr *Frame, x *ssa.Index) {
	e := st.e
	e.unsupportedf("Index on value of type %s", x.X.Type())
}

func (st *State) execSlice(fr *Frame, x *ssa.Slice) {
	e := st.e
	v := st.val(fr, x.X)
	var base, off, ln, cp string
	switch t := x.X.Type().Underlying().(type) {
	case *types.Slice:
		base, off, ln, cp = v.C[0], v.C[1], v.C[2], v.C[3]
	case *types.Pointer:
		at := t.Elem().Underlying().(*types.Array)
		p := st.asPtr(v)
		base, off, ln, cp = p.Root, "0", fmt.Sprint(at.Len()), fmt.Sprint(at.Len())
	case *types.Basic:
		// string slicing: abstracted
		lo, hi := "0", fmt.Sprintf("(strlen %s)", v.C[0])
		if x.Low != nil {
			lo = st.val(fr, x.Low).C[0]
		}
		if x.High != nil {
			hi = st.val(fr, x.High).C[0]
		}
		st.oblige("safety", "slice", e.curProps, fmt.Sprintf("(and (<= 0 %s) (<= %s %s) (<= %s (strlen %s)))", lo, lo, hi, hi, v.C[0]), x.Pos())
		fr.env[x] = Val{T: x.Type(), C: []string{fmt.Sprintf("(substr %s %s %s)", v.C[0], lo, hi)}}
		return
	default:
		e.unsupportedf("slice of %s", x.X.Type())
	}
	lo, hi, mx := "0", ln, cp
	if x.Low != nil {
		lo = st.val(fr, x.Low).C[0]
	}
	if x.High != nil {
		hi = st.val(fr, x.High).C[0]
	}
	if x.Max != nil {
		mx = st.val(fr, x.Max).C[0]
	}
	st.oblige("safety", "slice", e.curProps, fmt.Sprintf("(and (<= 0 %s) (<= %s %s) (<= %s %s) (<= %s %s))", lo, lo, hi, hi, mx, mx, cp), x.Pos())
	noff := off
	if lo != "0" {
		noff = fmt.Sprintf("(+ %s %s)", off, lo)
	}
	fr.env[x] = Val{T: x.Type(), C: []string{base, noff, fmt.Sprintf("(- %s %s)", hi, lo), fmt.Sprintf("(- %s %s)", mx, lo)}}
}

func (st *State) makeSlice(t types.Type, ln, cp Val, pos token.Pos) Val {
	e := st.e
	et := t.Underlying().(*types.Slice).Elem()
	base := st.newRef("mkslice")
	st.oblige("safety", "makeslice", e.curProps, fmt.Sprintf("(and (<= 0 %s) (<= %s %s))", ln.C[0], ln.C[0], cp.C[0]), pos)
	// zero-filled backing store
	if _, isStruct := et.Underlying().(*types.Struct); !isStruct || isTimeTime(et) {
		z := e.zero(et)
		for i, c := range e.flatten(et) {
			name := elemsName(e, et, c.Path)
			e.noteRef(name, c)
			a := st.arr(name, arr2Sort(c.Sort))
			st.setArr(name, arr2Sort(c.Sort), store(a, base, fmt.Sprintf("((as const (Array Int %s)) %s)", smtSort(c.Sort), z.C[i])))
		}
	}
	return Val{T: t, C: []string{base, "0", ln.C[0], cp.C[0]}}
}

// sliceElemPtr addresses element i (term) of slice value s.
func (st *State) sliceElemPtr(s Val, i string) *Ptr {
	e := st.e
	et := s.T.Underlying().(*types.Slice).Elem()
	pos := fmt.Sprintf("(slot %s %s)", s.C[1], i)
	if s.C[1] == "0" {
		pos = i
	}
	if _, isStruct := et.Underlying().(*types.Struct); isStruct && !isTimeTime(et) && !e.opaqueStruct(et) {
		root := fmt.Sprintf("(el %s %s)", s.C[0], pos)
		st.nonnil[root] = true
		return &Ptr{Kind: PObj, Root: root, RootT: et, T: et}
	}
	return &Ptr{Kind: PElem, Root: s.C[0], Idx: pos, T: et}
}

// ---- channels ----

const chanClosedName = "G|chanclosed"

func (st *State) chanClosed(ch string) string {
	return sel(st.arr(chanClosedName, "(Array Int Bool)"), ch)
}

func (st *State) setChanClosed(ch, v string) {
	a := st.arr(chanClosedName, "(Array Int Bool)")
	st.setArr(chanClosedName, "(Array Int Bool)", store(a, ch, v))
}

func (st *State) chanRecv(fr *Frame, x *ssa.UnOp) Val {
	e := st.e
	ch := st.val(fr, x.X)
	// A receive blocks until a value is sent or the channel is closed. The package only ever closes its channels,
	// so a completed receive means the channel is closed (happens-before edge from close).
	st.setChanClosed(ch.C[0], "true") // somebody (possibly another thread) has closed it by now
	e.assumeUsed("channel receive returns only after close (no sends on these channels); close happens-before the receive")
	st.onChanRecv(fr, ch, x.Pos())
	et := ch.T.Underlying().(*types.Chan).Elem()
	z := e.zero(et)
	if x.CommaOk {
		out := Val{T: x.Type(), C: append(append([]string{}, z.C...), "false")}
		return out
	}
	z.T = x.Type()
	return z
}

func (st *State) execPanic(fr *Frame, x *ssa.Panic) bool {
	// explicit panic: the path ends abnormally; must be unreachable unless the contract allows it
	st.oblige("safety", "panic", st.e.curProps, "false", x.Pos())
	return false
}

// Values crossing into the body of a generic function that was instantiated with a concrete type argument: the
// body is verified once with its type parameter as an uninterpreted one-leaf type, so a two-leaf argument (an
// interface such as error) travels as the injective pairing of its leaves, and comes back out the same way.
func (e *Engine) boxInst(paramT types.Type, v Val) Val {
	if _, isTP := paramT.(*types.TypeParam); !isTP {
		return v
	}
	switch len(v.C) {
	case 1:
		return v
	case 2:
		return Val{T: paramT, C: []string{fmt.Sprintf("(pair %s %s)", v.C[0], v.C[1])}}
	}
	e.unsupportedf("argument of type %s for type parameter %s", v.T, paramT)
	return v
}

func (e *Engine) unboxInst(callerT types.Type, v Val) Val {
	if _, isTP := v.T.(*types.TypeParam); !isTP || v.T == nil {
		return v
	}
	if _, alsoTP := callerT.(*types.TypeParam); alsoTP {
		return v
	}
	want := len(e.flatten(callerT))
	if want == len(v.C) {
		return v
	}
	if want == 2 && len(v.C) == 1 {
		return Val{T: callerT, C: []string{fmt.Sprintf("(pair_fst %s)", v.C[0]), fmt.Sprintf("(pair_snd %s)", v.C[0])}}
	}
	e.unsupportedf("result of type parameter type %s received as %s", v.T, callerT)
	return v
}

// runSync runs a statically known function value to completion inside a model and returns its results. The
// callback must be straight-line code (no branching into several paths).
func (st *State) runSync(fv *FuncV, args []Val, what string) []Val {
	e := st.e
	depth := len(st.frames)
	pending := len(e.worklist)
	nf := st.pushFrame(fv.Fn, args, fv.Bindings, nil)
	var out []Val
	nf.syncRet = &out
	for steps := 0; len(st.frames) > depth && !st.dead; steps++ {
		if steps > 10000 {
			e.unsupportedf("%s: callback does not return", what)
		}
		if !st.step() {
			break
		}
	}
	if len(e.worklist) != pending || st.dead || len(st.frames) != depth {
		e.unsupportedf("%s: callback is not straight-line code", what)
	}
	return out
}
