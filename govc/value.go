package main

import (
	"fmt"
	"go/types"
	"strings"

	"golang.org/x/tools/go/ssa"
)

// Sort is an SMT sort name.
type Sort string

const (
	SInt  Sort = "Int"
	SBool Sort = "Bool"
	SReal Sort = "Real"
	SStr  Sort = "Str"
)

// Comp is one scalar leaf of a flattened Go type.
type Comp struct {
	Path string
	Sort Sort
	T    types.Type // Go type of the leaf (for integer ranges); nil for synthetic leaves
}

// PtrKind tells how a pointer descriptor addresses memory.
type PtrKind int

const (
	PObj  PtrKind = iota // Root object (struct or scalar cell) + field path
	PElem                // element Idx of array/slice backing store Base (non-struct element type)
	PArr                 // pointer to an array object whose backing store is Base
)

// Ptr is a symbolic pointer descriptor.
type Ptr struct {
	Kind  PtrKind
	Root  string     // PObj: Int term of the root object; PElem/PArr: base term
	RootT types.Type // PObj: type of the root object
	Path  string     // PObj: field path prefix inside the root ("" = whole)
	Idx   string     // PElem: index term
	T     types.Type // pointee type
}

// FuncV is a statically known function value (possibly a closure).
type FuncV struct {
	Fn       *ssa.Function
	Bindings []Val
}

// Iter is a map range iterator.
type Iter struct {
	ID    string // ghost name of the visited set
	Map   Val
	MapT  *types.Map
	IsStr bool
}

// Val is a symbolic Go value: a type and one SMT term per flattened leaf.
type Val struct {
	T  types.Type
	C  []string
	P  *Ptr   // pointer descriptor (if T is a pointer and it is known)
	F  *FuncV // static function value
	It *Iter
}

func (v Val) String() string {
	return fmt.Sprintf("%s%v", v.T, v.C)
}

var timeTimeName = "time.Time"

func isTimeTime(t types.Type) bool {
	n, ok := t.(*types.Named)
	return ok && n.Obj().Pkg() != nil && n.Obj().Pkg().Path() == "time" && n.Obj().Name() == "Time"
}

func isNamedFrom(t types.Type, pkg, name string) bool {
	n, ok := t.(*types.Named)
	return ok && n.Obj().Pkg() != nil && n.Obj().Pkg().Path() == pkg && n.Obj().Name() == name
}

// opaqueStruct: struct types of other packages are treated as opaque objects addressed by identity.
func (e *Engine) opaqueStruct(t types.Type) bool {
	n, ok := t.(*types.Named)
	if !ok {
		return false
	}
	if _, ok := n.Underlying().(*types.Struct); !ok {
		return false
	}
	if isTimeTime(t) {
		return false
	}
	return n.Obj().Pkg() != nil && n.Obj().Pkg() != e.P.TPkg
}

// flatten returns the scalar leaves of a Go type.
func (e *Engine) flatten(t types.Type) []Comp {
	t = e.P.canonT(t)
	key := t
	if c, ok := e.flatCache[key]; ok {
		return c
	}
	var out []Comp
	if isTimeTime(t) {
		out = []Comp{{"", SInt, nil}}
		e.flatCache[key] = out
		return out
	}
	if e.opaqueStruct(t) {
		e.flatCache[key] = nil
		return nil
	}
	switch u := t.Underlying().(type) {
	case *types.Basic:
		switch {
		case u.Info()&types.IsBoolean != 0:
			out = []Comp{{"", SBool, t}}
		case u.Info()&types.IsInteger != 0:
			out = []Comp{{"", SInt, t}}
		case u.Info()&types.IsFloat != 0:
			out = []Comp{{"", SReal, t}}
		case u.Info()&types.IsString != 0:
			out = []Comp{{"", SStr, t}}
		case u.Kind() == types.UnsafePointer:
			out = []Comp{{"", SInt, nil}}
		case u.Kind() == types.UntypedNil:
			out = []Comp{{"", SInt, nil}}
		default:
			out = []Comp{{"", SInt, nil}}
		}
	case *types.Pointer, *types.Map, *types.Chan, *types.Signature:
		out = []Comp{{"", SInt, nil}}
	case *types.Interface:
		if _, ok := t.(*types.TypeParam); ok {
			out = []Comp{{"", SInt, nil}}
		} else {
			out = []Comp{{".tag", SInt, nil}, {".val", SInt, nil}}
		}
	case *types.Slice:
		out = []Comp{{".base", SInt, nil}, {".off", SInt, nil}, {".len", SInt, nil}, {".cap", SInt, nil}}
	case *types.Struct:
		for i := 0; i < u.NumFields(); i++ {
			f := u.Field(i)
			for _, c := range e.flatten(f.Type()) {
				out = append(out, Comp{"." + f.Name() + c.Path, c.Sort, c.T})
			}
		}
	case *types.Array:
		out = nil // arrays are addressed through pointers only
	case *types.Tuple:
		for i := 0; i < u.Len(); i++ {
			for _, c := range e.flatten(u.At(i).Type()) {
				out = append(out, Comp{fmt.Sprintf("#%d%s", i, c.Path), c.Sort, c.T})
			}
		}
	default:
		out = []Comp{{"", SInt, nil}}
	}
	e.flatCache[key] = out
	return out
}

// fieldRange returns the component index range [lo,hi) of field i in struct type t.
func (e *Engine) fieldRange(t types.Type, i int) (int, int) {
	t = e.P.canonT(t)
	st := t.Underlying().(*types.Struct)
	lo := 0
	for j := 0; j < i; j++ {
		lo += len(e.flatten(st.Field(j).Type()))
	}
	return lo, lo + len(e.flatten(st.Field(i).Type()))
}

func (e *Engine) tupleRange(t *types.Tuple, i int) (int, int) {
	lo := 0
	for j := 0; j < i; j++ {
		lo += len(e.flatten(t.At(j).Type()))
	}
	return lo, lo + len(e.flatten(t.At(i).Type()))
}

// typeTag returns the integer tag of a dynamic type (stable within a run; ordered by first use).
func (e *Engine) typeTag(t types.Type) string {
	return e.tagByName(e.P.relType(t), t)
}

func (e *Engine) tagByName(s string, t types.Type) string {
	if id, ok := e.tags[s]; ok {
		if _, generic := e.tagTypes[id].(*types.Named); generic && t != nil && e.P.relType(e.tagTypes[id]) != s {
			e.tagTypes[id] = t // prefer the type as it occurs in the code (instantiated with the body's type parameter)
		}
		return fmt.Sprint(id)
	}
	id := len(e.tags) + 1
	e.tags[s] = id
	e.tagTypes[id] = t
	return fmt.Sprint(id)
}

// zero value of a type.
func (e *Engine) zero(t types.Type) Val {
	comps := e.flatten(t)
	v := Val{T: t}
	for _, c := range comps {
		v.C = append(v.C, zeroOf(c, t))
	}
	if isTimeTime(t) {
		v.C = []string{zeroTimeNS}
	}
	return v
}

// zero time.Time (January 1, year 1 UTC) in ns relative to the Unix epoch.
const zeroTimeNS = "(- 62135596800000000000)"

func zeroOf(c Comp, t types.Type) string {
	switch c.Sort {
	case SBool:
		return "false"
	case SReal:
		return "0.0"
	case SStr:
		return "0"
	}
	return "0"
}

func intRange(t types.Type) (lo, hi string, ok bool) {
	if t == nil {
		return "", "", false
	}
	b, isb := t.Underlying().(*types.Basic)
	if !isb {
		return "", "", false
	}
	switch b.Kind() {
	case types.Int, types.Int64:
		return "(- 9223372036854775808)", "9223372036854775807", true
	case types.Int32:
		return "(- 2147483648)", "2147483647", true
	case types.Int16:
		return "(- 32768)", "32767", true
	case types.Int8:
		return "(- 128)", "127", true
	case types.Uint, types.Uint64, types.Uintptr:
		return "0", "18446744073709551615", true
	case types.Uint32:
		return "0", "4294967295", true
	case types.Uint16:
		return "0", "65535", true
	case types.Uint8:
		return "0", "255", true
	}
	return "", "", false
}

func bitsOf(t types.Type) (bits int, signed bool, ok bool) {
	b, isb := t.Underlying().(*types.Basic)
	if !isb {
		return 0, false, false
	}
	switch b.Kind() {
	case types.Int, types.Int64:
		return 64, true, true
	case types.Int32:
		return 32, true, true
	case types.Int16:
		return 16, true, true
	case types.Int8:
		return 8, true, true
	case types.Uint, types.Uint64, types.Uintptr:
		return 64, false, true
	case types.Uint32:
		return 32, false, true
	case types.Uint16:
		return 16, false, true
	case types.Uint8:
		return 8, false, true
	}
	return 0, false, false
}

func pow2(n int) string {
	// exact decimal 2^n for n in {7,8,15,16,31,32,63,64}
	m := map[int]string{7: "128", 8: "256", 15: "32768", 16: "65536", 31: "2147483648", 32: "4294967296", 63: "9223372036854775808", 64: "18446744073709551616"}
	return m[n]
}

// wrap normalises a mathematical integer term into the range of Go type t (two's complement wrap).
func wrapTerm(t types.Type, x string) string {
	bits, signed, ok := bitsOf(t)
	if !ok {
		return x
	}
	if signed {
		return fmt.Sprintf("(- (mod (+ %s %s) %s) %s)", x, pow2(bits-1), pow2(bits), pow2(bits-1))
	}
	return fmt.Sprintf("(mod %s %s)", x, pow2(bits))
}

func smtInt(s string) string {
	s = strings.TrimSpace(s)
	if strings.HasPrefix(s, "-") {
		return "(- " + s[1:] + ")"
	}
	return s
}

func and(ts ...string) string {
	var xs []string
	for _, t := range ts {
		if t == "true" || t == "" {
			continue
		}
		if t == "false" {
			return "false"
		}
		xs = append(xs, t)
	}
	switch len(xs) {
	case 0:
		return "true"
	case 1:
		return xs[0]
	}
	return "(and " + strings.Join(xs, " ") + ")"
}

func or(ts ...string) string {
	var xs []string
	for _, t := range ts {
		if t == "false" || t == "" {
			continue
		}
		if t == "true" {
			return "true"
		}
		xs = append(xs, t)
	}
	switch len(xs) {
	case 0:
		return "false"
	case 1:
		return xs[0]
	}
	return "(or " + strings.Join(xs, " ") + ")"
}

func not(t string) string {
	if t == "true" {
		return "false"
	}
	if t == "false" {
		return "true"
	}
	return "(not " + t + ")"
}

func eq(a, b string) string {
	if a == b {
		return "true"
	}
	if isPlainNumber(a) && isPlainNumber(b) {
		return "false" // distinct literals
	}
	return "(= " + a + " " + b + ")"
}

func isPlainNumber(s string) bool {
	if s == "" {
		return false
	}
	for _, r := range s {
		if r < '0' || r > '9' {
			return false
		}
	}
	return true
}
func implies(a, b string) string {
	if a == "true" {
		return b
	}
	if a == "false" || b == "true" {
		return "true"
	}
	return "(=> " + a + " " + b + ")"
}
func ite(c, a, b string) string {
	if c == "true" {
		return a
	}
	if c == "false" {
		return b
	}
	if a == b {
		return a
	}
	return "(ite " + c + " " + a + " " + b + ")"
}
func sel(a, i string) string      { return "(select " + a + " " + i + ")" }
func store(a, i, v string) string { return "(store " + a + " " + i + " " + v + ")" }
func q(name string) string        { return "|" + sanitize(name) + "|" }
