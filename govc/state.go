package main

import (
	"fmt"
	"go/token"
	"go/types"
	"sort"
	"strings"

	"golang.org/x/tools/go/ssa"
)

// Obligation is one proof obligation generated from the code under contract.
type Obligation struct {
	ID      int
	Name    string   // stable name: <function>/<kind>:<label>#<ordinal>
	Fn      string   // function under contract
	Kind    string   // post, pre, inv-init, inv-preserve, safety, lock, tok, own, guard, cover, sub
	Props   []string // property ids served
	Goal    string   // SMT term that must be valid under the path condition
	Pos     string
	Path    string // branch decisions leading here
	Expect  string // "unsat" (default) or "sat" for cover checks
	emitted bool

	// results
	Status string // discharged, failed, unknown, covered, uncovered
	Solver string
	Secs   float64
	Model  string
	Script string            // full script for this obligation alone (filled for failures)
	Note   string            // engine-side explanation (e.g. which arrays escape the frame)
	Replay string            // replay driver declared for the function
	Values map[string]string // model values of the replay terms
}

type lineKind int

const (
	lDecl lineKind = iota
	lAssert
	lCheck
)

type Line struct {
	Kind lineKind
	Text string
	Ob   *Obligation
}

// Deferred is a pending deferred call.
type Deferred struct {
	Call *ssa.CallCommon
	Fn   Val
	Args []Val
	Pos  token.Pos
}

// Frame is one activation record.
type Frame struct {
	fn        *ssa.Function
	env       map[ssa.Value]Val
	block     *ssa.BasicBlock
	prev      *ssa.BasicBlock
	idx       int
	defers    []Deferred
	bindings  []Val
	call      ssa.Instruction // instruction in the caller waiting for the result (nil for top / deferred)
	isDefer   bool            // frame was pushed by rundefers: result discarded, resume rundefers
	isThread  bool
	cut       map[*ssa.BasicBlock]bool // loop headers already cut in this activation
	loopEntry map[int]*Snapshot        // heap at the moment loop <ordinal> was entered (for atloop(n, e))
	params    []Val
	rangeRet  *rangeRet // frame is a sync.Map.Range callback activation
	specAddrs map[string]*Ptr
	syncRet   *[]Val
	cellVars  map[string]bool
	// contract scope (top-level frame only)
	contract *Contract
	specVars map[string]Val
	old      *Snapshot
}

// Snapshot captures heap and ghost versions for old().
type Snapshot struct {
	heap map[string]string
	n    int // number of havocs at snapshot time
}

// State is one symbolic execution path.
type State struct {
	e                         *Engine
	script                    []Line
	heap                      map[string]string // heap array / ghost name -> current term
	havocs                    []havocRec
	declared                  map[string]bool
	frames                    []*Frame
	path                      []string
	nonnil                    map[string]bool
	locks                     map[string]string // lock identity -> "W" or "R"
	iters                     map[string]*Iter
	ctxs                      map[string]ctxRec // payload term -> WithValue record
	funcs                     map[string]*FuncV // func id term -> static function
	notes                     []string
	depth                     int
	dead                      bool
	mapOwner                  map[string]mapOwner
	chanOwner                 map[string]chanOwner
	tokens                    []buildTok
	released                  []buildTok
	recvd                     map[string]bool
	borrowed                  map[string]string
	universals                []string
	frameAxioms               []string // "objects allocated before the call are unchanged" facts, instantiated at loads
	instDone                  map[string]bool
	instSeen                  map[string]int
	written                   map[string]bool // heap / ghost arrays written at a non-private index on this path (frame check)
	havocked                  []string        // havoc patterns applied on this path (frame check)
	known                     map[string]string
	allocConst                map[string]bool
	sawTokens                 bool
	inDetached                bool
	loopHavoc                 bool
	lastSortPerm, lastSortInv string
	lockCount                 map[string]int    // acquisitions per mutex identity on this path
	smOps                     int               // sync.Map primitives executed on this path
	lockSnap                  *Snapshot         // state right after the most recent lock acquisition
	lockSnaps                 []*Snapshot       // every lock acquisition of this call, in order
	private                   map[string]bool   // objects allocated by this call and not yet published
	birth                     map[string]string // reference term -> allocated-set term at the time the value became known
}

type ctxRec struct {
	parent Val
	key    Val
	val    Val
}

func (e *Engine) newState() *State {
	return &State{e: e, heap: map[string]string{},
		declared: map[string]bool{}, nonnil: map[string]bool{}, locks: map[string]string{}, iters: map[string]*Iter{},
		ctxs: map[string]ctxRec{}, funcs: map[string]*FuncV{}, birth: map[string]string{}, private: map[string]bool{}, mapOwner: map[string]mapOwner{}, chanOwner: map[string]chanOwner{}, recvd: map[string]bool{}, borrowed: map[string]string{}, instDone: map[string]bool{}, instSeen: map[string]int{}, lockCount: map[string]int{}, written: map[string]bool{}, known: map[string]string{}, allocConst: map[string]bool{}}
}

func (st *State) clone() *State {
	n := &State{e: st.e}
	n.script = st.script[:len(st.script):len(st.script)]
	n.heap = copyMap(st.heap)
	n.havocs = st.havocs[:len(st.havocs):len(st.havocs)]
	n.declared = map[string]bool{}
	for k, v := range st.declared {
		n.declared[k] = v
	}
	n.nonnil = map[string]bool{}
	for k, v := range st.nonnil {
		n.nonnil[k] = v
	}
	n.locks = copyMap(st.locks)
	n.iters = map[string]*Iter{}
	for k, v := range st.iters {
		n.iters[k] = v
	}
	n.ctxs = map[string]ctxRec{}
	for k, v := range st.ctxs {
		n.ctxs[k] = v
	}
	n.funcs = map[string]*FuncV{}
	for k, v := range st.funcs {
		n.funcs[k] = v
	}
	n.birth = copyMap(st.birth)
	n.lockSnap = st.lockSnap
	n.lockSnaps = append([]*Snapshot{}, st.lockSnaps...)
	n.chanOwner = map[string]chanOwner{}
	for k, v := range st.chanOwner {
		n.chanOwner[k] = v
	}
	n.borrowed = copyMap(st.borrowed)
	n.instSeen = map[string]int{}
	for k, v := range st.instSeen {
		n.instSeen[k] = v
	}
	n.lockCount = map[string]int{}
	for k, v := range st.lockCount {
		n.lockCount[k] = v
	}
	n.smOps = st.smOps
	n.lastSortPerm, n.lastSortInv = st.lastSortPerm, st.lastSortInv
	n.written = map[string]bool{}
	for k, v := range st.written {
		n.written[k] = v
	}
	n.havocked = append([]string{}, st.havocked...)
	n.known = copyMap(st.known)
	n.allocConst = map[string]bool{}
	for k, v := range st.allocConst {
		n.allocConst[k] = v
	}
	n.universals = append([]string{}, st.universals...)
	n.frameAxioms = append([]string{}, st.frameAxioms...)
	n.instDone = map[string]bool{}
	for k, v := range st.instDone {
		n.instDone[k] = v
	}
	n.sawTokens = st.sawTokens
	n.recvd = map[string]bool{}
	for k, v := range st.recvd {
		n.recvd[k] = v
	}
	n.tokens = append([]buildTok{}, st.tokens...)
	n.released = append([]buildTok{}, st.released...)
	n.mapOwner = map[string]mapOwner{}
	for k, v := range st.mapOwner {
		n.mapOwner[k] = v
	}
	n.private = map[string]bool{}
	for k, v := range st.private {
		n.private[k] = v
	}
	n.path = append([]string{}, st.path...)
	n.notes = append([]string{}, st.notes...)
	n.depth = st.depth
	for _, f := range st.frames {
		nf := *f
		nf.env = make(map[ssa.Value]Val, len(f.env))
		for k, v := range f.env {
			nf.env[k] = v
		}
		nf.defers = append([]Deferred{}, f.defers...)
		nf.loopEntry = map[int]*Snapshot{}
		for k, v := range f.loopEntry {
			nf.loopEntry[k] = v
		}
		nf.cut = map[*ssa.BasicBlock]bool{}
		for k, v := range f.cut {
			nf.cut[k] = v
		}
		nf.cellVars = f.cellVars // written once per name at its Alloc; shared read-only afterwards
		if f.specAddrs != nil {
			nf.specAddrs = map[string]*Ptr{}
			for k, v := range f.specAddrs {
				nf.specAddrs[k] = v
			}
		}
		if f.specVars != nil {
			nf.specVars = map[string]Val{}
			for k, v := range f.specVars {
				nf.specVars[k] = v
			}
		}
		n.frames = append(n.frames, &nf)
	}
	return n
}

func copyMap(m map[string]string) map[string]string {
	n := make(map[string]string, len(m))
	for k, v := range m {
		n[k] = v
	}
	return n
}

func (st *State) top() *Frame { return st.frames[len(st.frames)-1] }

func (st *State) snapshot() *Snapshot {
	return &Snapshot{heap: copyMap(st.heap), n: len(st.havocs)}
}

// ---- script construction ----

func (st *State) decl(text string) { st.script = append(st.script, Line{Kind: lDecl, Text: text}) }

func (st *State) assume(t string) {
	if t == "true" || t == "" {
		return
	}
	st.script = append(st.script, Line{Kind: lAssert, Text: t})
	if strings.Contains(t, "(forall ((|") && len(st.universals) < 60 {
		// quantified facts coming from contracts (their bound variables are quoted spec names)
		for _, u := range topUniversals(t) {
			if strings.HasPrefix(u, "(forall ((|") && len(instantiateAt(u, []string{"0"})) > 0 {
				st.universals = append(st.universals, u)
			}
		}
	}
}

// instantiateForArray: like instantiateFor, restricted to the quantified facts that mention the given array
// (frame facts "objects allocated before the call are unchanged", reference axioms) and a concrete index term.
func (st *State) instantiateForArray(arr, term string) {
	key := arr + "\x00" + term
	if strings.Contains(term, "$") || len(term) > 400 {
		return
	}
	from := st.instSeen[key] // frame axioms [0,from) were already instantiated at this term
	if from >= len(st.frameAxioms) {
		return
	}
	st.instSeen[key] = len(st.frameAxioms)
	needle := "|" + sanitize(arr) + "@"
	n := 0
	for _, u := range st.frameAxioms[from:] {
		if !strings.Contains(u, needle) {
			continue
		}
		for _, inst := range instantiateAt(u, []string{term}) {
			st.script = append(st.script, Line{Kind: lAssert, Text: inst})
			n++
		}
		if n > 20 {
			break
		}
	}
}

// instantiateFor adds the instances of the universally quantified facts of this path at a ground term that the
// code is about to use as a map key (a sound hint: quantifier instantiation by the engine instead of the solver).
func (st *State) instantiateFor(term string) {
	if strings.Contains(term, "$") {
		return
	}
	from := st.instSeen[term]
	if from >= len(st.universals) {
		return
	}
	st.instSeen[term] = len(st.universals)
	for _, u := range st.universals[from:] {
		for _, inst := range instantiateAt(u, []string{term}) {
			st.script = append(st.script, Line{Kind: lAssert, Text: inst})
		}
	}
}

// fresh declares a fresh constant of the given sort.
func (st *State) fresh(prefix string, s Sort) string {
	st.e.counter++
	name := q(fmt.Sprintf("%s!%d", prefix, st.e.counter))
	st.decl(fmt.Sprintf("(declare-const %s %s)", name, smtSort(s)))
	return name
}

func smtSort(s Sort) string {
	if s == SStr {
		return "Int"
	}
	return string(s)
}

func (st *State) freshSort(prefix string, sort string) string {
	st.e.counter++
	name := q(fmt.Sprintf("%s!%d", prefix, st.e.counter))
	st.decl(fmt.Sprintf("(declare-const %s %s)", name, sort))
	return name
}

// freshVal creates an unconstrained symbolic value of type t (integer leaves range-constrained).
func (st *State) freshVal(prefix string, t types.Type) Val {
	v := Val{T: t}
	for _, c := range st.e.flatten(t) {
		n := st.fresh(prefix+c.Path, c.Sort)
		v.C = append(v.C, n)
		st.assumeRange(c, n)
	}
	st.assumeWellFormed(v)
	if it, ok := t.Underlying().(*types.Interface); ok && it.NumMethods() > 0 && len(v.C) == 2 {
		// static typing: a non-nil value of a non-empty interface type has a dynamic type that implements it
		st.assume(implies(not(eq(v.C[0], "0")), st.implementsTerm(v.C[0], t)))
	}
	return v
}

func (st *State) assumeRange(c Comp, term string) {
	if lo, hi, ok := intRange(c.T); ok && c.Sort == SInt {
		st.assume(fmt.Sprintf("(and (<= %s %s) (<= %s %s))", lo, term, term, hi))
	}
}

// assumeWellFormed adds the type invariants of slices (0<=len<=cap, nil base => len 0) etc.
func (st *State) assumeWellFormed(v Val) {
	comps := st.e.flatten(v.T)
	for i, c := range comps {
		if strings.HasSuffix(c.Path, ".len") && i >= 2 && strings.HasSuffix(comps[i-1].Path, ".off") {
			base, off, ln, cp := v.C[i-2], v.C[i-1], v.C[i], v.C[i+1]
			st.assume(fmt.Sprintf("(and (<= 0 %s) (<= 0 %s) (<= %s %s) (>= %s 0) (=> (= %s 0) (= %s 0)) (<= (+ %s %s) 281474976710656))", off, ln, ln, cp, base, base, cp, off, cp))
		}
		if c.Sort == SStr {
			st.assume(fmt.Sprintf("(>= (strlen %s) 0)", v.C[i]))
		}
		if strings.HasSuffix(c.Path, ".tag") {
			st.assume(fmt.Sprintf("(and (>= %s 0) (=> (= %s 0) (= %s 0)))", v.C[i], v.C[i], v.C[i+1]))
		}
	}
}

// ---- heap arrays and ghost variables (ghost names start with "G|") ----

type havocRec struct {
	pat    string
	id     int
	alloc  string    // allocated-set term right after this havoc ("" = unchanged)
	before *Snapshot // state right before the havoc (for append-only ghost logs)
}

func matchPat(pat, name string) bool {
	if strings.HasSuffix(pat, "*") {
		return strings.HasPrefix(name, pat[:len(pat)-1])
	}
	return pat == name
}

// baseVersion is the name of the not-yet-touched version of an array after the first `upto` havocs.
func (st *State) baseVersion(name string, upto int) string {
	for i := upto - 1; i >= 0; i-- {
		if matchPat(st.havocs[i].pat, name) {
			return fmt.Sprintf("%s@h%d", name, st.havocs[i].id)
		}
	}
	return name + "@0"
}

func (st *State) declBase(base, sort, init string) {
	if st.declared[base] {
		return
	}
	st.decl(fmt.Sprintf("(declare-const %s %s)", base, sort))
	st.declared[base] = true
	if init != "" {
		st.assume(strings.ReplaceAll(init, "$", base))
	}
}

// refAxiom: every reference stored in a base version of a reference-holding array is nil or allocated
// (a type invariant of every real Go heap; instantiated by pattern on reads).
func (st *State) refAxiom(name, base, sort string, upto int) {
	if !st.e.refArr[name] || name == allocName {
		return
	}
	// the base version of an array holds what it held right after the last havoc that matched it (or at entry)
	at := 0
	for i := upto - 1; i >= 0; i-- {
		if matchPat(st.havocs[i].pat, name) {
			at = i + 1
			break
		}
	}
	al := st.allocAsOf(at)
	switch sort {
	case "(Array Int Int)":
		st.assume(fmt.Sprintf("(forall ((x Int)) (! (< (select %s x) %s) :pattern ((select %s x))))", base, al, base))
	case "(Array Int (Array Int Int))":
		st.assume(fmt.Sprintf("(forall ((m Int) (x Int)) (! (< (select (select %s m) x) %s) :pattern ((select (select %s m) x))))", base, al, base))
	}
}

// allocAsOf returns the allocated-set term that was current right after the first `upto` havocs.
func (st *State) allocAsOf(upto int) string {
	for i := upto - 1; i >= 0; i-- {
		if st.havocs[i].alloc != "" {
			return st.havocs[i].alloc
		}
	}
	b := q(allocName + "@0")
	st.declBase(b, "Int", st.e.ghostInit[allocName])
	return b
}

// arr returns the current term of a heap array / ghost variable, declaring its base version lazily.
func (st *State) arr(name string, sort string) string {
	if t, ok := st.heap[name]; ok {
		return t
	}
	base := q(st.baseVersion(name, len(st.havocs)))
	if !st.declared[base] {
		st.declBase(base, sort, st.e.ghostInit[name])
		st.refAxiom(name, base, sort, len(st.havocs))
		st.logAxiom(name, base, sort, len(st.havocs))
	}
	st.heap[name] = base
	st.e.arrSorts[name] = sort
	return base
}

// logCounter: the counter that bounds an append-only ghost log array ("" if the array is not a log).
func logCounter(name string) string {
	switch {
	case name == "G|clk":
		return "G|nclk"
	case strings.HasPrefix(name, "G|res|"), strings.HasPrefix(name, "G|arg|"):
		rest := name[6:]
		if i := strings.LastIndex(rest, "|"); i > 0 {
			return "G|cnt|" + rest[:i]
		}
	case name == "G|rand":
		return "G|cnt|rand"
	}
	return ""
}

// logAxiom: ghost call logs and the clock log are append-only. A havoc (a call whose frame mentions the log) can
// only append: entries below the counter value before the havoc are unchanged, and the counter does not decrease.
func (st *State) logAxiom(name, base, sort string, upto int) {
	var rec *havocRec
	for i := upto - 1; i >= 0; i-- {
		if matchPat(st.havocs[i].pat, name) {
			rec = &st.havocs[i]
			break
		}
	}
	if rec == nil || rec.before == nil {
		return
	}
	if strings.HasPrefix(name, "G|cnt|") || name == "G|nclk" || name == "G|delok" {
		prev := st.arrIn(rec.before, name, "Int")
		st.assume(fmt.Sprintf("(>= %s %s)", base, prev))
		return
	}
	cn := logCounter(name)
	if cn == "" || !strings.HasPrefix(sort, "(Array Int ") {
		return
	}
	st.e.ghostInit[cn] = "(>= $ 0)"
	prevArr := st.arrIn(rec.before, name, sort)
	prevCnt := st.arrIn(rec.before, cn, "Int")
	st.assume(fmt.Sprintf("(forall ((i Int)) (! (=> (< i %s) (= (select %s i) (select %s i))) :pattern ((select %s i))))", prevCnt, base, prevArr, base))
}

func (st *State) setArr(name, sort, term string) {
	st.setArrRaw(name, sort, term, true)
}

func (st *State) setArrRaw(name, sort, term string, invalidate bool) {
	if invalidate && strings.HasPrefix(name, "H|") {
		// any direct update of a heap array invalidates the remembered values (storePtr re-notes its own)
		prefix := name + "\x00"
		for k := range st.known {
			if strings.HasPrefix(k, prefix) {
				delete(st.known, k)
			}
		}
	}
	st.e.counter++
	nm := q(fmt.Sprintf("%s@%d", name, st.e.counter))
	st.decl(fmt.Sprintf("(define-fun %s () %s %s)", nm, sort, term))
	st.heap[name] = nm
	st.e.arrSorts[name] = sort
}

// havoc forgets everything about the arrays matching the pattern.
func (st *State) alloc() string { return st.arr(allocName, "Int") }

func (st *State) havoc(pat string) {
	if pat != allocName && !strings.HasPrefix(pat, "G|it|") && !st.loopHavoc {
		// (havocs at loop headers over-approximate what the body writes; the body's own writes are tracked)
		st.havocked = append(st.havocked, pat)
	}
	st.e.counter++
	rec := havocRec{pat: pat, id: st.e.counter}
	if pat != allocName {
		rec.alloc = st.alloc()
	}
	if strings.HasPrefix(pat, "G|") && pat != allocName {
		rec.before = st.snapshot()
	}
	st.havocs = append(st.havocs, rec)
	for name := range st.heap {
		if matchPat(pat, name) {
			delete(st.heap, name)
		}
	}
	for k := range st.known {
		if i := strings.Index(k, "\x00"); i > 0 && matchPat(pat, k[:i]) {
			delete(st.known, k)
		}
	}
}

// arrIn returns the version of an array in a snapshot.
func (st *State) arrIn(sn *Snapshot, name, sort string) string {
	if sn == nil {
		return st.arr(name, sort)
	}
	if t, ok := sn.heap[name]; ok {
		return t
	}
	base := q(st.baseVersion(name, sn.n))
	if !st.declared[base] {
		st.declBase(base, sort, st.e.ghostInit[name])
		st.refAxiom(name, base, sort, sn.n)
		st.logAxiom(name, base, sort, sn.n)
	}
	if sn.n == len(st.havocs) {
		if _, ok := st.heap[name]; !ok {
			st.heap[name] = base
		}
	}
	st.e.arrSorts[name] = sort
	return base
}

func heapName(e *Engine, rootT types.Type, path string) string {
	return "H|" + e.P.relType(rootT) + "|" + path
}

func elemsName(e *Engine, elemT types.Type, path string) string {
	return "E|" + e.P.relType(elemT) + "|" + path
}

// ---- obligations ----

func (st *State) pathString() string { return strings.Join(st.path, ",") }

func (st *State) oblige(kind, label string, props []string, goal string, pos token.Pos) *Obligation {
	e := st.e
	fn := e.curFn
	base := fmt.Sprintf("%s/%s:%s", fn, kind, label)
	if goal == "true" {
		// trivially valid: discharged syntactically (still named, so that its disappearance is noticed)
		e.trivial[base]++
		e.obID++
		tob := &Obligation{ID: e.obID, Name: base, Fn: fn, Kind: kind, Props: props, Goal: goal, Expect: "unsat", Status: "discharged", Solver: "syntactic", emitted: true}
		e.obligations = append(e.obligations, tob)
		return nil
	}
	ob := &Obligation{Name: base, Fn: fn, Kind: kind, Props: props, Goal: goal, Path: st.pathString(), Expect: "unsat", Replay: e.curReplay}
	if c := e.contracts[e.curFn]; c != nil {
		for _, rf := range c.ReplayFor {
			if strings.Contains(base, rf[0]) {
				ob.Replay = rf[1]
				for _, kv := range strings.Fields(rf[2]) {
					if i := strings.Index(kv, ":="); i > 0 {
						e.replayConsts[e.curFn+"\x00"+kv[:i]] = kv[i+2:]
					}
				}
			}
		}
	}
	if pos.IsValid() {
		p := e.P.Prog.Fset.Position(pos)
		ob.Pos = fmt.Sprintf("%s:%d", shortFile(p.Filename), p.Line)
	}
	e.obID++
	ob.ID = e.obID
	st.script = append(st.script, Line{Kind: lCheck, Ob: ob})
	e.obligations = append(e.obligations, ob)
	// The goal is NOT assumed afterwards: every obligation stands on the path condition alone, so that a
	// check restricted to one property never leans on an unchecked obligation of another property.
	return ob
}

func (st *State) cover(label string, props []string, pos token.Pos) {
	e := st.e
	ob := &Obligation{Name: fmt.Sprintf("%s/cover:%s", e.curFn, label), Fn: e.curFn, Kind: "cover", Props: props, Goal: "false", Path: st.pathString(), Expect: "sat"}
	if pos.IsValid() {
		p := e.P.Prog.Fset.Position(pos)
		ob.Pos = fmt.Sprintf("%s:%d", shortFile(p.Filename), p.Line)
	}
	e.obID++
	ob.ID = e.obID
	st.script = append(st.script, Line{Kind: lCheck, Ob: ob})
	e.obligations = append(e.obligations, ob)
}

func shortFile(f string) string {
	if i := strings.LastIndex(f, "/"); i >= 0 {
		return f[i+1:]
	}
	return f
}

func sortedKeys(m map[string]string) []string {
	var ks []string
	for k := range m {
		ks = append(ks, k)
	}
	sort.Strings(ks)
	return ks
}
