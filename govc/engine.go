package main

import (
	"fmt"
	"go/constant"
	"go/token"
	"go/types"
	"os"
	"runtime/debug"
	"sort"
	"strings"

	"golang.org/x/tools/go/ssa"
)

// Engine drives symbolic execution of SSA functions and collects obligations.
type Engine struct {
	P         *Program
	flatCache map[types.Type][]Comp
	tags      map[string]int
	tagTypes  map[int]types.Type
	counter   int
	obID      int

	obligations []*Obligation
	trivial     map[string]int
	curFn       string
	curProps    []string
	contracts   map[string]*Contract
	ifaceSpecs  map[string]*Contract // "<Iface>.<Method>" or call-out kind -> contract
	arrSorts    map[string]string
	refArr      map[string]bool
	ghostInit   map[string]string
	strLits     map[string]int
	funcIDs     map[string]int
	funcByID    map[int]*ssa.Function
	globals     map[string]int
	globalName  map[string]string

	worklist []*State
	scripts  [][]Line // finished path scripts
	paths    int
	maxPaths int

	warnings           map[string]int
	assumptions        map[string]bool
	unsupported        map[string][]string // function -> reasons (function not verified)
	loops              map[*ssa.Function]*loopInfo
	wsCache            map[*ssa.Function][]string
	wsBusy             map[*ssa.Function]bool
	fnStats            map[string]*FnStat
	kindSigs           map[string]*types.Signature
	axiomList          []axiom
	defs               map[string]*SpecDef
	replayConsts       map[string]string
	frames             map[string][]string
	bgGlobals          map[string]bool
	tbsCache           map[string]types.Type
	curReplay          string
	symbols            map[string][]string     // named locals per function on the pinned tree (symbols.json)
	conjOnly           bool                    // second attempts: conjunct runs only
	replayTerms        map[string][]ReplayTerm // function -> named terms to read back from a model
	bgT, vcT, weT, esT types.Type
}

type FnStat struct {
	Paths int
	Obs   int
}

func newEngine(p *Program) *Engine {
	e := newEngine0(p)
	// references 1..1000 are the package-level variables: always allocated
	e.ghostInit[allocName] = "(> $ 1000)"
	return e
}

func newEngine0(p *Program) *Engine {
	return &Engine{P: p, flatCache: map[types.Type][]Comp{}, tags: map[string]int{}, tagTypes: map[int]types.Type{},
		trivial: map[string]int{}, contracts: map[string]*Contract{}, ifaceSpecs: map[string]*Contract{},
		arrSorts: map[string]string{}, refArr: map[string]bool{}, ghostInit: map[string]string{}, strLits: map[string]int{}, funcIDs: map[string]int{},
		funcByID: map[int]*ssa.Function{}, globals: map[string]int{}, globalName: map[string]string{}, warnings: map[string]int{}, assumptions: map[string]bool{},
		unsupported: map[string][]string{}, loops: map[*ssa.Function]*loopInfo{}, wsCache: map[*ssa.Function][]string{},
		wsBusy: map[*ssa.Function]bool{}, maxPaths: 5000, kindSigs: map[string]*types.Signature{}, replayTerms: map[string][]ReplayTerm{}, defs: map[string]*SpecDef{}, replayConsts: map[string]string{}, frames: map[string][]string{}, tbsCache: map[string]types.Type{}, fnStats: map[string]*FnStat{}}
}

func (e *Engine) warn(format string, a ...interface{}) {
	e.warnings[fmt.Sprintf(format, a...)]++
}

func (e *Engine) assumeUsed(s string) { e.assumptions[s] = true }

type unsupportedErr struct{ msg string }

func (e *Engine) unsupportedf(format string, a ...interface{}) {
	if os.Getenv("GOVC_STACK") != "" {
		fmt.Fprintf(os.Stderr, "unsupported: %s\n%s\n", fmt.Sprintf(format, a...), debug.Stack())
	}
	panic(unsupportedErr{fmt.Sprintf(format, a...)})
}

// strLit returns the integer code of a string literal ("" is 0).
func (e *Engine) strLit(s string) string {
	if s == "" {
		return "0"
	}
	if id, ok := e.strLits[s]; ok {
		return fmt.Sprint(id)
	}
	id := 1000 + len(e.strLits)
	e.strLits[s] = id
	return fmt.Sprint(id)
}

func (e *Engine) funcID(f *ssa.Function) string {
	n := f.String()
	if id, ok := e.funcIDs[n]; ok {
		return fmt.Sprint(id)
	}
	id := 500000 + len(e.funcIDs)
	e.funcIDs[n] = id
	e.funcByID[id] = f
	return fmt.Sprint(id)
}

func (e *Engine) globalRef(g *ssa.Global) string {
	n := g.String()
	if id, ok := e.globals[n]; ok {
		return fmt.Sprint(id)
	}
	id := 1 + len(e.globals)
	e.globals[n] = id
	e.globalName[fmt.Sprint(id)] = g.Pkg.Pkg.Path() + "." + g.Name()
	return fmt.Sprint(id)
}

// ---- operand evaluation ----

func (st *State) val(fr *Frame, v ssa.Value) Val {
	e := st.e
	switch x := v.(type) {
	case *ssa.Const:
		return st.constVal(x)
	case *ssa.Function:
		return Val{T: x.Type(), C: []string{e.funcID(x)}, F: &FuncV{Fn: x}}
	case *ssa.Global:
		et := x.Type().(*types.Pointer).Elem()
		r := e.globalRef(x)
		return Val{T: x.Type(), C: []string{r}, P: &Ptr{Kind: PObj, Root: r, RootT: et, T: et}}
	case *ssa.FreeVar:
		for i, fv := range fr.fn.FreeVars {
			if fv == x {
				return fr.bindings[i]
			}
		}
		e.unsupportedf("free var %s not bound", x.Name())
	case *ssa.Builtin:
		return Val{T: x.Type()}
	}
	if r, ok := fr.env[v]; ok {
		return r
	}
	e.unsupportedf("value %s (%T) not in environment of %s", v.Name(), v, fr.fn.Name())
	return Val{}
}

func (st *State) constVal(c *ssa.Const) Val {
	e := st.e
	t := c.Type()
	if c.Value == nil {
		// zero value / nil
		return e.zero(t)
	}
	switch c.Value.Kind() {
	case constant.Bool:
		if constant.BoolVal(c.Value) {
			return Val{T: t, C: []string{"true"}}
		}
		return Val{T: t, C: []string{"false"}}
	case constant.String:
		return Val{T: t, C: []string{e.strLit(constant.StringVal(c.Value))}}
	case constant.Int:
		if b, ok := t.Underlying().(*types.Basic); ok && b.Info()&types.IsFloat != 0 {
			return Val{T: t, C: []string{smtReal(c.Value)}}
		}
		return Val{T: t, C: []string{smtInt(c.Value.ExactString())}}
	case constant.Float:
		if b, ok := t.Underlying().(*types.Basic); ok && b.Info()&types.IsInteger != 0 {
			return Val{T: t, C: []string{smtInt(constant.ToInt(c.Value).ExactString())}}
		}
		return Val{T: t, C: []string{smtReal(c.Value)}}
	}
	e.unsupportedf("constant %v", c)
	return Val{}
}

func smtReal(v constant.Value) string {
	f := constant.ToFloat(v)
	num := constant.Num(f)
	den := constant.Denom(f)
	ns := num.ExactString()
	neg := false
	if strings.HasPrefix(ns, "-") {
		neg = true
		ns = ns[1:]
	}
	s := fmt.Sprintf("(/ %s.0 %s.0)", ns, den.ExactString())
	if den.ExactString() == "1" {
		s = ns + ".0"
	}
	if neg {
		s = "(- " + s + ")"
	}
	return s
}

// ---- pointers and memory ----

// asPtr turns a pointer-typed value into a descriptor.
func (st *State) asPtr(v Val) *Ptr {
	if v.P != nil {
		return v.P
	}
	pt, ok := v.T.Underlying().(*types.Pointer)
	if !ok {
		st.e.unsupportedf("asPtr on non-pointer %s", v.T)
	}
	et := pt.Elem()
	if _, isArr := et.Underlying().(*types.Array); isArr {
		return &Ptr{Kind: PArr, Root: v.C[0], T: et}
	}
	return &Ptr{Kind: PObj, Root: v.C[0], RootT: et, T: et}
}

// ptrVal encodes a pointer descriptor as a value.
func (st *State) ptrVal(p *Ptr, t types.Type) Val {
	return Val{T: t, C: []string{st.ptrTerm(p)}, P: p}
}

func (st *State) ptrTerm(p *Ptr) string {
	switch p.Kind {
	case PObj:
		if p.Path == "" {
			return p.Root
		}
		return fmt.Sprintf("(fa %s %s)", st.e.strLit("fa:"+st.e.P.relType(p.RootT)+p.Path), p.Root)
	case PArr:
		return p.Root
	case PElem:
		return fmt.Sprintf("(el %s %s)", p.Root, p.Idx)
	}
	return "0"
}

// A struct of the package that is embedded by value in another struct (Trait in TraitOf[V], logTrait in Failover)
// is an object of its own: its address is an injective function of the enclosing object, and its fields live in
// the arrays of ITS type. So a method of the embedded type called on the interior pointer and a direct access
// through the enclosing struct name the same memory.
func (e *Engine) isEmbeddedObject(f *types.Var) bool {
	if !f.Embedded() {
		return false
	}
	n, ok := f.Type().(*types.Named)
	if !ok || n.Obj().Pkg() != e.P.TPkg || isTimeTime(n) {
		return false
	}
	_, isStruct := n.Underlying().(*types.Struct)
	return isStruct
}

// leafLoc maps a leaf (root object, field path) to the heap array and the index that hold it.
func (st *State) leafLoc(rootT types.Type, root, path string) (string, string) {
	e := st.e
	if !strings.Contains(path, ".") {
		return heapName(e, rootT, path), root
	}
	t := e.P.canonT(rootT)
	segs := strings.Split(path, ".")[1:]
	prefix := ""
	for i, seg := range segs {
		s, ok := t.Underlying().(*types.Struct)
		if !ok || isTimeTime(t) {
			break
		}
		idx, f := findField(s, seg)
		if idx < 0 {
			break
		}
		prefix += "." + seg
		if e.isEmbeddedObject(f) {
			root = st.ptrTerm(&Ptr{Kind: PObj, Root: root, RootT: rootT, Path: prefix})
			rootT, t, prefix = f.Type(), f.Type(), ""
			rest := ""
			if i+1 < len(segs) {
				rest = "." + strings.Join(segs[i+1:], ".")
			}
			return st.leafLoc(rootT, root, rest)
		}
		t = e.P.canonT(f.Type())
	}
	return heapName(e, rootT, path), root
}

func (st *State) checkNonNil(term string, pos token.Pos, what string) {
	if term == "0" {
		st.oblige("safety", "nil:"+what, st.e.curProps, "false", pos)
		return
	}
	if st.nonnil[term] {
		return
	}
	st.oblige("safety", "nil:"+what, st.e.curProps, not(eq(term, "0")), pos)
	st.nonnil[term] = true
}

func arrSort(s Sort) string  { return "(Array Int " + smtSort(s) + ")" }
func arr2Sort(s Sort) string { return "(Array Int (Array Int " + smtSort(s) + "))" }

// initOnlyBackground reports whether a global is assigned only in the package initialiser, with context.Background().
func (e *Engine) initOnlyBackground(root string) bool {
	if e.bgGlobals == nil {
		e.bgGlobals = map[string]bool{}
		cand := map[*ssa.Global]bool{}
		stores := map[*ssa.Global]int{}
		for _, fn := range e.P.Funcs {
			if fn == e.P.Pkg.Func("init") {
				continue
			}
			for _, b := range fn.Blocks {
				for _, in := range b.Instrs {
					if s, ok := in.(*ssa.Store); ok {
						if g, ok := s.Addr.(*ssa.Global); ok {
							stores[g]++
						}
					}
				}
			}
		}
		if init := e.P.Pkg.Func("init"); init != nil {
			for _, b := range init.Blocks {
				for _, in := range b.Instrs {
					if s, ok := in.(*ssa.Store); ok {
						if g, ok := s.Addr.(*ssa.Global); ok {
							stores[g]++
							if c, ok := s.Val.(*ssa.Call); ok {
								if f, ok := c.Call.Value.(*ssa.Function); ok && f.String() == "context.Background" {
									cand[g] = true
								}
							}
						}
					}
				}
			}
		}
		for g := range cand {
			if stores[g] == 1 {
				e.bgGlobals[e.globalRef(g)] = true
			}
		}
	}
	return e.bgGlobals[root]
}

func (st *State) loadPtr(p *Ptr, pos token.Pos) Val {
	e := st.e
	if p.Kind == PObj && p.Path == "" && isConcreteNum(p.Root) && e.globalName[p.Root] == "net/http.DefaultTransport" {
		// a non-nil RoundTripper set up by net/http
		e.assumeUsed("net/http.DefaultTransport is a non-nil RoundTripper")
		return Val{T: p.T, C: []string{e.tagByName("*http.Transport", nil), "999"}}
	}
	if p.Kind == PObj && p.Path == "" && isConcreteNum(p.Root) && e.globalName[p.Root] == "io.EOF" {
		v := st.ioEOF()
		v.T = p.T
		return v
	}
	if p.Kind == PObj && p.Path == "" && isConcreteNum(p.Root) && e.initOnlyBackground(p.Root) {
		bg := st.ctxBackground()
		bg.T = p.T
		e.assumeUsed("package variable bgCtx is assigned once, in the package initialiser, with context.Background()")
		return bg
	}
	v := Val{T: p.T}
	comps := e.flatten(p.T)
	switch p.Kind {
	case PObj:
		st.checkNonNil(p.Root, pos, "load")
		for _, c := range comps {
			nm, root := st.leafLoc(p.RootT, p.Root, p.Path+c.Path)
			e.noteRef(nm, c)
			a := st.arr(nm, arrSort(c.Sort))
			st.instantiateForArray(nm, root)
			t := sel(a, root)
			if kv, ok := st.known[nm+"\x00"+root]; ok {
				t = kv // the value this path itself stored there (no intervening write can alias it)
			}
			v.C = append(v.C, t)
		}
	case PElem:
		for _, c := range comps {
			nm := elemsName(e, p.T, c.Path)
			e.noteRef(nm, c)
			a := st.arr(nm, arr2Sort(c.Sort))
			v.C = append(v.C, sel(sel(a, p.Root), p.Idx))
		}
	case PArr:
		e.unsupportedf("load of whole array")
	}
	st.assumeLoaded(v)
	return v
}

// assumeLoaded adds the type facts that hold for every value read from memory.
func (st *State) assumeLoaded(v Val) {
	comps := st.e.flatten(v.T)
	for i, c := range comps {
		st.assumeRange(c, v.C[i])
	}
	st.assumeWellFormed(v)
}

func (st *State) storePtr(p *Ptr, v Val, pos token.Pos) {
	e := st.e
	comps := e.flatten(p.T)
	if len(comps) != len(v.C) {
		e.unsupportedf("store: component mismatch %s <- %s", p.T, v.T)
	}
	switch p.Kind {
	case PObj:
		st.checkNonNil(p.Root, pos, "store")
		for i, c := range comps {
			name, root := st.leafLoc(p.RootT, p.Root, p.Path+c.Path)
			e.noteRef(name, c)
			a := st.arr(name, arrSort(c.Sort))
			st.setArrRaw(name, arrSort(c.Sort), store(a, root, v.C[i]), false)
			st.noteKnown(name, root, v.C[i])
			if !st.allocConst[p.Root] {
				st.written[name] = true
			}
		}
	case PElem:
		for i, c := range comps {
			name := elemsName(e, p.T, c.Path)
			e.noteRef(name, c)
			a := st.arr(name, arr2Sort(c.Sort))
			st.setArr(name, arr2Sort(c.Sort), store(a, p.Root, store(sel(a, p.Root), p.Idx, v.C[i])))
			if !st.allocConst[p.Root] {
				st.written[name] = true
			}
		}
	case PArr:
		e.unsupportedf("store of whole array")
	}
}

// ---- allocation ----

const allocName = "G|alloc"

// Allocation is modelled by a bump counter (ghost Int "G|alloc" = the next free reference): objects are numbered
// in allocation order, so "allocated in state s" is p < next_s and freshness is plain arithmetic. References
// 1..1000 are package-level variables; interior references (el/fa terms) are negative.
func (st *State) newRef(prefix string) string {
	r := st.fresh(prefix, SInt)
	a := st.alloc()
	st.assume(eq(r, a))
	st.setArr(allocName, "Int", fmt.Sprintf("(+ %s 1)", a))
	st.nonnil[r] = true
	st.private[r] = true
	st.allocConst[r] = true
	return r
}

// noteKnown remembers the value just stored at (array, index) so that a later load on this path returns the very
// term (smaller formulas). Entries of the same array at other indices survive only if both indices are distinct
// objects allocated by this path (which cannot alias).
func (st *State) noteKnown(name, idx, val string) {
	prefix := name + "\x00"
	for k := range st.known {
		if strings.HasPrefix(k, prefix) {
			other := k[len(prefix):]
			if other != idx && st.allocConst[other] && st.allocConst[idx] {
				continue
			}
			delete(st.known, k)
		}
	}
	st.known[prefix+idx] = val
}

// bumpAlloc models allocation by code we do not see: the counter may grow.
func (st *State) bumpAlloc() {
	old := st.alloc()
	st.havoc(allocName)
	nw := st.alloc()
	st.assume(fmt.Sprintf("(>= %s %s)", nw, old))
	st.havocs[len(st.havocs)-1].alloc = nw
}

// allocatedIn: reference term p denotes nil, a package variable, an interior reference, or an object allocated
// before the counter value next.
func allocatedIn(p, next string) string {
	return fmt.Sprintf("(< %s %s)", p, next)
}

func compIsRef(c Comp) bool {
	if c.T != nil || c.Sort != SInt {
		return false
	}
	switch lastField(c.Path) {
	case "off", "len", "cap", "tag":
		return false
	}
	return true
}

func (e *Engine) noteRef(name string, c Comp) {
	if compIsRef(c) {
		e.refArr[name] = true
	}
}

// assumeAllocated says every reference leaf of v is nil or allocated now.
func (st *State) assumeAllocated(v Val) {
	comps := st.e.flatten(v.T)
	a := ""
	for i, c := range comps {
		isRef := compIsRef(c)
		if isRef && v.C[i] != "0" {
			if a == "" {
				a = st.alloc()
			}
			st.assume(allocatedIn(v.C[i], a))
			if _, ok := st.birth[v.C[i]]; !ok {
				st.birth[v.C[i]] = a
			}
		}
	}
}

// assumeDerived: a reference obtained from `from` by an uninterpreted (pure) observation was allocated
// no later than `from` itself.
func (st *State) assumeDerived(from, derived string) {
	if al, ok := st.birth[from]; ok {
		st.assume(allocatedIn(derived, al))
		if _, ok := st.birth[derived]; !ok {
			st.birth[derived] = al
		}
	}
}

func lastField(p string) string {
	if i := strings.LastIndex(p, "."); i >= 0 {
		return p[i+1:]
	}
	return p
}

// ---- loops ----

type loopInfo struct {
	headers []*ssa.BasicBlock                     // in block order
	body    map[*ssa.BasicBlock][]*ssa.BasicBlock // natural loop blocks per header
	ordinal map[*ssa.BasicBlock]int
}

func (e *Engine) loopsOf(fn *ssa.Function) *loopInfo {
	if li, ok := e.loops[fn]; ok {
		return li
	}
	li := &loopInfo{body: map[*ssa.BasicBlock][]*ssa.BasicBlock{}, ordinal: map[*ssa.BasicBlock]int{}}
	for _, b := range fn.Blocks {
		for _, s := range b.Succs {
			if s.Dominates(b) {
				// back edge b -> s
				if _, ok := li.body[s]; !ok {
					li.headers = append(li.headers, s)
					li.body[s] = []*ssa.BasicBlock{s}
				}
				// natural loop: all nodes that reach b without passing s
				seen := map[*ssa.BasicBlock]bool{s: true}
				for _, x := range li.body[s] {
					seen[x] = true
				}
				stack := []*ssa.BasicBlock{b}
				for len(stack) > 0 {
					x := stack[len(stack)-1]
					stack = stack[:len(stack)-1]
					if seen[x] {
						continue
					}
					seen[x] = true
					li.body[s] = append(li.body[s], x)
					stack = append(stack, x.Preds...)
				}
			}
		}
	}
	sort.Slice(li.headers, func(i, j int) bool { return li.headers[i].Index < li.headers[j].Index })
	for i, h := range li.headers {
		li.ordinal[h] = i + 1
	}
	e.loops[fn] = li
	return li
}

// typeByString finds a type by its package-relative string among the types used by the current function.
func (e *Engine) typeByString(name string) types.Type {
	ck := e.curFn + "\x00" + name
	if t, ok := e.tbsCache[ck]; ok {
		return t
	}
	t := e.typeByString1(name)
	e.tbsCache[ck] = t
	return t
}

func (e *Engine) typeByString1(name string) types.Type {
	fn := e.P.Funcs[e.curFn]
	if fn == nil {
		return nil
	}
	seen := map[types.Type]bool{}
	var found types.Type
	var visit func(t types.Type)
	visit = func(t types.Type) {
		if t == nil || seen[t] || found != nil {
			return
		}
		seen[t] = true
		if e.P.relType(t) == name {
			found = t
			return
		}
		switch u := t.(type) {
		case *types.Pointer:
			visit(u.Elem())
		case *types.Slice:
			visit(u.Elem())
		case *types.Array:
			visit(u.Elem())
		case *types.Map:
			visit(u.Key())
			visit(u.Elem())
		case *types.Named:
			if st, ok := u.Underlying().(*types.Struct); ok {
				for i := 0; i < st.NumFields(); i++ {
					visit(st.Field(i).Type())
				}
			}
		case *types.Tuple:
			for i := 0; i < u.Len(); i++ {
				visit(u.At(i).Type())
			}
		case *types.Signature:
			visit(u.Params())
			visit(u.Results())
		}
	}
	var fns []*ssa.Function
	fns = append(fns, fn)
	fns = append(fns, fn.AnonFuncs...)
	var names []string
	for n := range e.P.Funcs {
		names = append(names, n)
	}
	sort.Strings(names)
	for _, n := range names {
		fns = append(fns, e.P.Funcs[n])
	}
	for _, f := range fns {
		if found != nil {
			break
		}
		for _, p := range f.Params {
			visit(p.Type())
		}
		for _, b := range f.Blocks {
			for _, in := range b.Instrs {
				if v, ok := in.(ssa.Value); ok {
					visit(v.Type())
				}
			}
		}
	}
	return found
}
