package main

import (
	"encoding/json"
	"fmt"
	"os"
	"path/filepath"
	"sort"
	"strconv"
	"strings"
)

type ObReport struct {
	Name    string  `json:"name"`
	Count   int     `json:"instances"`
	Status  string  `json:"status"`
	Solver  string  `json:"solver,omitempty"`
	Secs    float64 `json:"secs"`
	MaxSecs float64 `json:"max_secs"`
	Second  bool    `json:"second_attempt,omitempty"`
	Pos     string  `json:"pos,omitempty"`
	Path    string  `json:"path,omitempty"`
	Model   string  `json:"model,omitempty"`
	Goal    string  `json:"goal,omitempty"`
	ob      *Obligation
}

type Report struct {
	Prop           string
	Tier           string
	Functions      []string
	Obs            []*ObReport // aggregated by name
	Total          int
	Discharged     int
	Trivial        int
	Failed         int
	Unknown        int
	Covers         int
	Covered        int
	Uncovered      int
	BySolver       map[string]int
	SolverSecs     map[string]float64
	Unsupported    map[string][]string
	Warnings       []string
	Assumptions    []string
	Wall           float64
	Paths          map[string]int
	failing        []*Obligation
	instances      []*Obligation
	undecided      []string
	knownCount     int
	updateExpected bool
}

func (e *Engine) preregisterTags() {
	// stable tags for the types the prelude axioms mention
	e.sentinelTag()
	e.namedTag("errExpired")
	e.expiredOfTag()
	e.wrapErrTag()
}

func (e *Engine) buildReport(prop, tier string, fns []string, want func(*Obligation) bool, wall float64) *Report {
	r := &Report{Prop: prop, Tier: tier, Functions: fns, BySolver: map[string]int{}, SolverSecs: map[string]float64{}, Unsupported: map[string][]string{}, Wall: wall, Paths: map[string]int{}}
	agg := map[string]*ObReport{}
	order := []string{}
	rank := map[string]int{"failed": 4, "unknown": 3, "uncovered": 3, "": 3, "discharged": 1, "covered": 1}
	for _, ob := range e.obligations {
		if !want(ob) {
			continue
		}
		if len(e.unsupported[ob.Fn]) > 0 {
			continue // the function is reported as not verified as a whole
		}
		r.instances = append(r.instances, ob)
		a := agg[ob.Name]
		if a == nil {
			a = &ObReport{Name: ob.Name, Status: ob.Status, Solver: ob.Solver, Pos: ob.Pos, ob: ob}
			agg[ob.Name] = a
			order = append(order, ob.Name)
		}
		a.Count++
		a.Secs += ob.Secs
		if ob.Secs > a.MaxSecs {
			a.MaxSecs = ob.Secs
		}
		if strings.Contains(ob.Solver, "second attempt") {
			a.Second = true
		}
		if rank[ob.Status] > rank[a.Status] || a.Count == 1 {
			a.Status, a.Solver, a.Pos, a.Path, a.Model, a.Goal, a.ob = ob.Status, ob.Solver, ob.Pos, ob.Path, ob.Model, ob.Goal, ob
		}
		if ob.Kind == "cover" {
			continue
		}
		r.BySolver[ob.Solver]++
		r.SolverSecs[ob.Solver] += ob.Secs
	}
	sort.Strings(order)
	for _, n := range order {
		a := agg[n]
		if a.Status == "discharged" || a.Status == "covered" {
			a.Model, a.Goal, a.Path = "", "", ""
		}
		if a.Status == "" {
			a.Status = "unknown"
		}
		r.Obs = append(r.Obs, a)
		if a.ob.Kind == "cover" {
			r.Covers++
			// a return block is covered if some instance is sat
			cov := false
			for _, ob := range r.instances {
				if ob.Name == n && ob.Status == "covered" {
					cov = true
				}
			}
			if cov {
				a.Status = "covered"
				r.Covered++
			} else {
				a.Status = "uncovered"
				r.Uncovered++
			}
			continue
		}
		r.Total++
		switch a.Status {
		case "discharged":
			r.Discharged++
		case "failed":
			r.Failed++
			r.failing = append(r.failing, a.ob)
		default:
			r.Unknown++
			r.failing = append(r.failing, a.ob)
		}
	}
	for k, v := range e.trivial {
		_ = k
		r.Trivial += v
	}
	inSel := map[string]bool{}
	for _, f := range fns {
		inSel[f] = true
	}
	for f, why := range e.unsupported {
		if inSel[f] {
			r.Unsupported[f] = uniq(why)
		}
	}
	for w, n := range e.warnings {
		r.Warnings = append(r.Warnings, fmt.Sprintf("%s (x%d)", w, n))
	}
	sort.Strings(r.Warnings)
	for a := range e.assumptions {
		r.Assumptions = append(r.Assumptions, a)
	}
	sort.Strings(r.Assumptions)
	for f, s := range e.fnStats {
		r.Paths[f] = s.Paths
	}
	return r
}

func uniq(xs []string) []string {
	m := map[string]bool{}
	var out []string
	for _, x := range xs {
		if !m[x] {
			m[x] = true
			out = append(out, x)
		}
	}
	return out
}

func (r *Report) print(verbose bool) {
	for _, o := range r.Obs {
		if verbose || (o.Status != "discharged" && o.Status != "covered") {
			fmt.Printf("  %-11s %-60s x%-3d %-7s %6.2fs %s\n", o.Status, o.Name, o.Count, o.Solver, o.Secs, o.Pos)
			if o.Status != "discharged" && o.Status != "covered" && verbose {
				fmt.Printf("      path: %s\n      goal: %s\n", o.Path, trunc(o.Goal, 600))
				if o.ob.Note != "" {
					fmt.Printf("      note: %s\n", o.ob.Note)
				}
				if o.Model != "" {
					fmt.Printf("      model: %s\n", trunc(strings.ReplaceAll(o.Model, "\n", " "), 1500))
				}
			}
		}
	}
	for f, why := range r.Unsupported {
		fmt.Printf("  NOT-VERIFIED %s: %s\n", f, strings.Join(why, "; "))
	}
	if verbose {
		for _, w := range r.Warnings {
			fmt.Printf("  warning: %s\n", w)
		}
	}
	fmt.Printf("property=%s tier=%s functions=%d obligations=%d discharged=%d failed=%d unknown=%d covers=%d/%d trivial=%d wall=%.1fs\n",
		r.Prop, r.Tier, len(r.Functions), r.Total, r.Discharged, r.Failed, r.Unknown, r.Covered, r.Covers, r.Trivial, r.Wall)
}

func trunc(s string, n int) string {
	if len(s) > n {
		return s[:n] + "..."
	}
	return s
}

// ---- known findings / expected obligations / evidence ----

type KnownFinding struct {
	Property   string `json:"property"`
	Obligation string `json:"obligation"`
	What       string `json:"what"`
	Signature  string `json:"signature,omitempty"`
}

type FixedFinding struct {
	Property   string `json:"property"`
	Commit     string `json:"commit"`
	Obligation string `json:"obligation"`
	What       string `json:"what"`
}

type KnownFile struct {
	Known []KnownFinding `json:"known"`
	Fixed []FixedFinding `json:"fixed"`
}

func loadKnown(verif string) KnownFile {
	var k KnownFile
	b, err := os.ReadFile(filepath.Join(verif, "known_findings.json"))
	if err == nil {
		_ = json.Unmarshal(b, &k)
	}
	return k
}

// expected obligations: names that discharge on the pinned tree, per property.
func loadExpected(verif string) map[string][]string {
	m := map[string][]string{}
	b, err := os.ReadFile(filepath.Join(verif, "expected_obligations.json"))
	if err == nil {
		_ = json.Unmarshal(b, &m)
	}
	return m
}

// finish writes evidence, replays and prints VIOLATION / KNOWN-FINDING lines. Returns the exit code.
func (r *Report) finish(repo, verif, prop, tier string, writeEvidence bool) int {
	known := loadKnown(verif)
	expected := loadExpected(verif)
	exp := map[string]bool{}
	volatile := map[string]bool{}
	for _, n := range expected[prop] {
		if strings.HasPrefix(n, "~") {
			// discharged on the pinned tree, but only after several attempts or close to the time budget: not pinned
			// (if it fails without a counterexample it is reported as UNDECIDED, never as a violation)
			volatile[n[1:]] = true
			continue
		}
		exp[n] = true
	}
	seed := 0
	if s := os.Getenv("VERIF_SEED"); s != "" {
		seed, _ = strconv.Atoi(s)
	}
	violations := 0
	var knownPrinted []string
	var violNames []string
	replayDir := filepath.Join(verif, "replays", prop)
	present := map[string]bool{}
	for _, o := range r.Obs {
		present[o.Name] = true
	}
	isKnown := func(name string) *KnownFinding {
		for i := range known.Known {
			k := &known.Known[i]
			if k.Property == prop && k.Obligation == name {
				return k
			}
		}
		return nil
	}
	bootstrap := len(expected[prop]) == 0
	var undecided []string
	report := func(name, why, solverOut string, ob *Obligation) {
		syntactic := ob != nil && ob.Goal == "false" && ob.Kind != "cover" // a discipline rule violated on a path the solver cannot refute
		if ob != nil && !bootstrap && !exp[name] && !syntactic && !(ob.Status == "failed" && !strings.Contains(ob.Solver, "quantifier-free")) {
			// an obligation that never discharged on the pinned tree and has no genuine model is not claimed
			if ob.Replay != "" {
				rp := map[string]interface{}{}
				if tryReplay(repo, verif, prop, ob, rp) != "confirmed" {
					undecided = append(undecided, name)
					fmt.Printf("UNDECIDED: property=%s %s (%s) - not an expected obligation, no confirmed counterexample\n", prop, name, ob.Status)
					return
				}
			} else {
				undecided = append(undecided, name)
				fmt.Printf("UNDECIDED: property=%s %s (%s) - not an expected obligation, no confirmed counterexample\n", prop, name, ob.Status)
				return
			}
		}
		if k := isKnown(name); k != nil {
			line := fmt.Sprintf("KNOWN-FINDING: property=%s %s: %s", prop, name, k.What)
			fmt.Println(line)
			knownPrinted = append(knownPrinted, line)
			r.knownCount++
			return
		}
		violations++
		violNames = append(violNames, name)
		_ = os.MkdirAll(replayDir, 0o755)
		path := filepath.Join(replayDir, safeName(name)+".json")
		rp := map[string]interface{}{"property": prop, "obligation": name, "reason": why, "solver_output": solverOut}
		suffix := " no-failing-input-found"
		if ob != nil {
			rp["path"] = ob.Path
			if ob.Note != "" {
				rp["note"] = ob.Note
			}
			rp["pos"] = ob.Pos
			rp["goal"] = ob.Goal
			rp["solver"] = ob.Solver
			if res := tryReplay(repo, verif, prop, ob, rp); res == "confirmed" {
				suffix = ""
			}
		}
		b, _ := json.MarshalIndent(rp, "", " ")
		_ = os.WriteFile(path, b, 0o644)
		fmt.Printf("VIOLATION property=%s replay=%s obligation=%s%s\n", prop, path, name, suffix)
	}
	for _, ob := range r.failing {
		why := "obligation not discharged: " + ob.Status
		report(ob.Name, why, ob.Model, ob)
	}
	// a function that could not be verified at all, or an expected obligation that vanished, is a failure too
	var fns []string
	for f := range r.Unsupported {
		fns = append(fns, f)
	}
	sort.Strings(fns)
	for _, f := range fns {
		report(f+"/not-verified", "function could not be verified: "+strings.Join(r.Unsupported[f], "; "), "", nil)
	}
	for n := range volatile {
		if !present[n] {
			fmt.Printf("NOTE: property=%s the unpinned obligation %s was not generated\n", prop, n)
		}
	}
	var missing []string
	for n := range exp {
		if !present[n] && !strings.Contains(n, "/cover:") {
			// (cover names carry SSA block numbers, which harmless edits renumber: they are not pinned)
			missing = append(missing, n)
		}
	}
	sort.Strings(missing)
	for _, n := range missing {
		report(n, "obligation expected on the pinned tree was not generated (contract lost, function renamed or path no longer reachable)", "", nil)
	}
	for _, o := range r.Obs {
		if o.ob.Kind == "cover" && o.Status == "uncovered" {
			report(o.Name, "cover check: return no longer reachable under the precondition (vacuity)", "", nil)
		}
	}
	r.undecided = undecided
	if writeEvidence {
		r.writeEvidence(verif, prop, tier, seed, violations, knownPrinted, violNames)
	}
	if r.updateExpected {
		var names []string
		for _, o := range r.Obs {
			if o.Status == "discharged" || o.Status == "covered" {
				if o.MaxSecs > 8 || o.Second || volatile[o.Name] { // (once unpinned, an obligation stays unpinned until the mark is removed by hand)
					names = append(names, "~"+o.Name)
					continue
				}
				names = append(names, o.Name)
			}
		}
		sort.Strings(names)
		expected[prop] = names
		b, _ := json.MarshalIndent(expected, "", " ")
		_ = os.WriteFile(filepath.Join(verif, "expected_obligations.json"), b, 0o644)
	}
	if violations > 0 {
		return 1
	}
	return 0
}

func safeName(s string) string {
	repl := strings.NewReplacer("/", "_", "*", "", "(", "", ")", "", " ", "_", ":", ".", "$", "S", "[", "_", "]", "_", "#", "N")
	return repl.Replace(s)
}

func (r *Report) writeEvidence(verif, prop, tier string, seed, violations int, knownPrinted, violNames []string) {
	var samples []interface{}
	n := 0
	for _, o := range r.Obs {
		if o.ob.Kind == "cover" {
			continue
		}
		if n < 12 || o.Status != "discharged" {
			samples = append(samples, map[string]interface{}{"obligation": o.Name, "instances": o.Count, "status": o.Status, "solver": o.Solver, "pos": o.Pos})
			n++
		}
	}
	var names []string
	for _, o := range r.Obs {
		names = append(names, o.Name+" ["+o.Status+"]")
	}
	trusted := []string{
		"go/packages + go/types + go/ssa (x/tools v0.29.0) preserve the semantics of the source (front-end trust)",
		"govc: self-written symbolic executor / VC generator (this repository, /verif/govc)",
		"SMT solvers z3 5.1.0, z3 4.8.12, cvc5 1.0 (an obligation counts when one answers unsat)",
	}
	trusted = append(trusted, r.Assumptions...)
	inst := 0
	instDis := 0
	for _, ob := range r.instances {
		if ob.Kind == "cover" {
			continue
		}
		inst++
		if ob.Status == "discharged" {
			instDis++
		}
	}
	// obligations that fail because of a recorded genuine defect are not part of what is claimed as proved: they
	// are reported separately (KNOWN-FINDING lines), so obligations/discharged describe the proved part
	// likewise an obligation that is not pinned (new, or marked volatile) and did not discharge on this run is
	// undecided: it is listed under undecided_new_obligations and is not part of the proved count
	claimedTotal := r.Total - len(knownPrinted) - len(r.undecided)
	cov := map[string]interface{}{
		"obligations":                           claimedTotal,
		"obligations_failing_as_known_findings": len(knownPrinted),
		"discharged":                            r.Discharged,
		"obligation_instances":                  inst,
		"instances_discharged":                  instDis,
		"trivially_true_instances":              r.Trivial,
		"checker_cmd":                           fmt.Sprintf("/verif/check %s --tier %s", prop, tier),
		"trusted_base":                          trusted,
		"functions_under_contract":              r.Functions,
		"paths_per_function":                    r.Paths,
		"by_solver":                             r.BySolver,
		"solver_seconds":                        r.SolverSecs,
		"covers":                                r.Covers,
		"covers_sat":                            r.Covered,
		"undischarged":                          violNames,
		"undecided_new_obligations":             r.undecided,
		"not_verified":                          r.Unsupported,
		"known_findings_printed":                knownPrinted,
		"all_obligations":                       names,
		"samples":                               samples,
		"warnings":                              r.Warnings,
	}
	ev := map[string]interface{}{
		"property_id": prop,
		"tier":        tier,
		"seed":        seed,
		"level":       "proof",
		"coverage":    cov,
		"assumptions": r.Assumptions,
		"wall_s":      r.Wall,
		"violations":  violations,
	}
	// obligations proved on this run but not pinned (see DESIGN.md 11.7)
	var unpinned []string
	for _, n := range loadExpected(verif)[prop] {
		if strings.HasPrefix(n, "~") {
			unpinned = append(unpinned, n[1:])
		}
	}
	cov["unpinned_obligations"] = unpinned
	if extra := loadPropNotes(verif, prop); extra != nil {
		for k, v := range extra {
			cov[k] = v
		}
	}
	_ = os.MkdirAll(filepath.Join(verif, "evidence"), 0o755)
	b, _ := json.MarshalIndent(ev, "", " ")
	_ = os.WriteFile(filepath.Join(verif, "evidence", prop+".json"), b, 0o644)
}

// loadPropNotes: static per-property notes (not_decided, bounded stand-ins) kept in /verif/prop_notes.json.
func loadPropNotes(verif, prop string) map[string]interface{} {
	b, err := os.ReadFile(filepath.Join(verif, "prop_notes.json"))
	if err != nil {
		return nil
	}
	var m map[string]map[string]interface{}
	if json.Unmarshal(b, &m) != nil {
		return nil
	}
	return m[prop]
}
