package main

import (
	"fmt"
	"go/types"
	"strconv"
	"strings"
)

// kindSig returns the signature of a call-out kind (recorded at its first use, or derived from names in scope).
func (sc *SpecCtx) kindSig(kind string) *types.Signature {
	e := sc.st.e
	// a contracted method of the receiver type of the function under verification, by short name (modular calls
	// are logged under it); Failover and FailoverOf[V] have methods of the same names
	if i := strings.Index(e.curFn, ")."); i > 0 && strings.HasPrefix(e.curFn, "(") {
		if fn := e.P.Funcs[e.curFn[:i+2]+kind]; fn != nil && e.contracts[e.curFn[:i+2]+kind] != nil {
			return fn.Signature
		}
	}
	if s, ok := e.kindSigs[kind]; ok {
		return s
	}
	if strings.HasPrefix(kind, "go:") {
		if fn := e.P.Funcs[kind[3:]]; fn != nil {
			return fn.Signature // a spawned goroutine: its call is logged under go:<function>
		}
	}
	if v, ok := sc.vars[kind]; ok {
		if s, ok := v.T.Underlying().(*types.Signature); ok {
			return s
		}
	}
	// a contracted function of the package, by short name (modular calls are logged under it)
	for n := range e.contracts {
		if fn := e.P.Funcs[n]; fn != nil && fn.Name() == kind {
			return fn.Signature
		}
	}
	// Iface.Method or Struct.field (a trailing [] selects the element type of a slice-of-funcs field)
	if i := strings.LastIndex(kind, "."); i > 0 {
		tn, mn := kind[:i], kind[i+1:]
		elem := strings.HasSuffix(mn, "[]")
		mn = strings.TrimSuffix(mn, "[]")
		scope := e.P.TPkg.Scope()
		if k := strings.LastIndex(tn, "."); k > 0 {
			// an interface of an imported package: <import path>.<Iface>.<Method>
			for _, imp := range e.P.TPkg.Imports() {
				if imp.Path() == tn[:k] {
					scope, tn = imp.Scope(), tn[k+1:]
					break
				}
			}
		}
		if obj, ok := scope.Lookup(tn).(*types.TypeName); ok {
			switch u := obj.Type().Underlying().(type) {
			case *types.Interface:
				for j := 0; j < u.NumMethods(); j++ {
					if u.Method(j).Name() == mn {
						return u.Method(j).Type().(*types.Signature)
					}
				}
			case *types.Struct:
				for j := 0; j < u.NumFields(); j++ {
					if u.Field(j).Name() == mn {
						ft := u.Field(j).Type()
						if sl, ok := ft.Underlying().(*types.Slice); ok && elem {
							ft = sl.Elem()
						}
						if s, ok := ft.Underlying().(*types.Signature); ok {
							return s
						}
					}
				}
			}
		}
	}
	return nil
}

func (sc *SpecCtx) kindArg(x *SExpr) string {
	switch x.Op {
	case "ident":
		return x.Name
	case "str":
		return x.Name
	case "sel":
		return sc.kindArg(x.Args[0]) + "." + x.Name
	}
	sc.fail("call-out kind must be a name: %s", x)
	return ""
}

func (sc *SpecCtx) intLit(x *SExpr) int {
	if x.Op != "int" {
		sc.fail("expected integer literal, got %s", x)
	}
	n, _ := strconv.Atoi(x.Name)
	return n
}

func (sc *SpecCtx) call(x *SExpr) Val {
	e := sc.st.e
	st := sc.st
	args := x.Args
	switch x.Name {
	case "old":
		saved := sc.cur
		sc.cur = sc.old
		v := sc.eval(args[0])
		sc.cur = saved
		return v
	case "atloop": // atloop(n, e): e evaluated in the heap as it was when loop n of this function was entered
		n := sc.intLit(args[0])
		if sc.fr == nil || sc.fr.loopEntry[n] == nil {
			sc.fail("atloop(%d, ...): loop %d has not been entered on this path", n, n)
		}
		saved := sc.cur
		sc.cur = sc.fr.loopEntry[n]
		v := sc.eval(args[1])
		sc.cur = saved
		return v
	case "tok": // tok(k): the current thread holds the build token of key k
		k := sc.eval(args[0])
		if sc.grant {
			// a precondition of the function under verification: the caller hands the token over
			st.tokens = append(st.tokens, buildTok{key: k.C[0], typ: "*"})
			return mkBool("true")
		}
		return mkBool(st.tokHeld(k.C[0]))
	case "notokens": // no token is held
		if len(st.tokens) == 0 {
			return mkBool("true")
		}
		return mkBool("false")
	case "klKey": // ghost: the key a key-lock object was created for
		v := sc.eval(args[0])
		return mkStr(fmt.Sprintf("(klkey %s)", v.C[0]))
	case "prov": // prov(k, v): value v has provenance for key k (backend content or successful build)
		k, v := sc.eval(args[0]), sc.eval(args[1])
		if len(v.C) == 1 {
			v = st.makeInterface(v, types.NewInterfaceType(nil, nil))
		}
		return mkBool(fmt.Sprintf("(prov %s %s %s)", k.C[0], v.C[0], v.C[1]))
	case "errProv": // errProv(k, e): error e was produced by the backend or a builder for key k
		k, v := sc.eval(args[0]), sc.eval(args[1])
		return mkBool(fmt.Sprintf("(errprov %s %s %s)", k.C[0], v.C[0], v.C[1]))
	case "satsub": // Go's saturating time subtraction
		a, b2 := sc.eval(args[0]), sc.eval(args[1])
		return Val{T: tInt64, C: []string{satSub(a.C[0], b2.C[0])}}
	case "lockedAt": // lockedAt(n, e): value of e right after the n-th lock acquisition of this call (entry value if fewer)
		n := sc.intLit(args[0])
		saved := sc.cur
		if n >= 1 && n <= len(st.lockSnaps) {
			sc.cur = st.lockSnaps[n-1]
		} else {
			sc.cur = sc.old
		}
		v := sc.eval(args[1])
		sc.cur = saved
		return v
	case "locked": // value of an expression right after the most recent lock acquisition of this call
		saved := sc.cur
		sc.cur = st.lockSnap
		if st.lockSnap == nil {
			sc.cur = sc.old // no lock taken on this path: the entry value
		}
		v := sc.eval(args[0])
		sc.cur = saved
		return v
	case "len":
		v := sc.eval(args[0])
		switch t := v.T.Underlying().(type) {
		case *types.Slice:
			return Val{T: tInt, C: []string{v.C[2]}}
		case *types.Basic:
			return Val{T: tInt, C: []string{"(strlen " + v.C[0] + ")"}}
		case *types.Map:
			_, ln, _, _ := e.mapNames(t)
			return Val{T: tInt, C: []string{ite(eq(v.C[0], "0"), "0", sel(sc.arr(ln, "(Array Int Int)"), v.C[0]))}}
		}
		sc.fail("len of %s", v.T)
	case "cap":
		v := sc.eval(args[0])
		return Val{T: tInt, C: []string{v.C[3]}}
	case "has": // has(m, k): key k is in map m
		m := sc.eval(args[0])
		mt, ok := m.T.Underlying().(*types.Map)
		if !ok {
			sc.fail("has on non-map %s", m.T)
		}
		k := sc.eval(args[1])
		return mkBool(sc.mapHas(mt, m.C[0], st.mapKeyTerm(mt, k)))
	case "cnt": // number of call-outs of a kind so far
		kind := sc.kindArg(args[0])
		e.ghostInit["G|cnt|"+kind] = "(>= $ 0)"
		return Val{T: tInt, C: []string{sc.arr("G|cnt|"+kind, "Int")}}
	case "calls": // calls(K) = call-outs of kind K made by this function so far
		kind := sc.kindArg(args[0])
		e.ghostInit["G|cnt|"+kind] = "(>= $ 0)"
		cur := sc.arr("G|cnt|"+kind, "Int")
		old := st.arrIn(sc.old, "G|cnt|"+kind, "Int")
		return Val{T: tInt, C: []string{fmt.Sprintf("(- %s %s)", cur, old)}}
	case "res", "arg": // res(K, j, i): result i of the j-th (1-based) call-out of kind K since entry
		kind := sc.kindArg(args[0])
		j := sc.eval(args[1])
		i := sc.intLit(args[2])
		sig := sc.kindSig(kind)
		if sig == nil {
			sc.fail("unknown call-out kind %q", kind)
		}
		var t types.Type
		if x.Name == "res" {
			if i >= sig.Results().Len() {
				sc.fail("res index out of range for %s", kind)
			}
			t = sig.Results().At(i).Type()
		} else {
			if i == 0 {
				t = types.Typ[types.Int]
				if sig.Recv() != nil && types.IsInterface(sig.Recv().Type()) && strings.Contains(kind, ".") {
					t = sig.Recv().Type() // the receiver of an interface method call-out
				}
			} else if i-1 < sig.Params().Len() {
				t = sig.Params().At(i - 1).Type()
			} else {
				sc.fail("arg index out of range for %s", kind)
			}
		}
		e.ghostInit["G|cnt|"+kind] = "(>= $ 0)"
		old := st.arrIn(sc.old, "G|cnt|"+kind, "Int")
		idx := fmt.Sprintf("(+ %s (- %s 1))", old, j.C[0])
		v := Val{T: t}
		for _, c := range e.flatten(t) {
			nm := fmt.Sprintf("G|%s|%s|%d%s", x.Name, kind, i, c.Path)
			v.C = append(v.C, sel(sc.arr(nm, arrSort(c.Sort)), idx))
		}
		return v
	case "metric": // metric(name): accumulated value of Stat.Add for that name
		n := sc.eval(args[0])
		return mkReal(sel(sc.arr("G|metric", "(Array Int Real)"), n.C[0]))
	case "delok": // ghost: number of Deleter.Delete call-outs so far that returned nil
		e.ghostInit["G|delok"] = "(and (>= $ 0) (< $ 4611686018427387904))"
		return Val{T: tInt, C: []string{sc.arr("G|delok", "Int")}}
	case "clockReads": // clock readings made by this function so far
		e.ghostInit["G|nclk"] = "(>= $ 0)"
		return Val{T: tInt, C: []string{fmt.Sprintf("(- %s %s)", sc.arr("G|nclk", "Int"), st.arrIn(sc.old, "G|nclk", "Int"))}}
	case "clockN":
		return Val{T: tInt, C: []string{sc.arr("G|nclk", "Int")}}
	case "now": // now(j): j-th clock reading made by this function (1-based)
		j := sc.eval(args[0])
		old := st.arrIn(sc.old, "G|nclk", "Int")
		return Val{T: tInt64, C: []string{sel(sc.arr("G|clk", "(Array Int Int)"), fmt.Sprintf("(+ %s (- %s 1))", old, j.C[0]))}}
	case "lastNow": // the most recent clock reading (any function)
		return Val{T: tInt64, C: []string{sc.arr("G|clock", "Int")}}
	case "ttlCell": // innermost *time.Duration stored under ttlCtxKey{} (nil if none)
		ctx := sc.eval(args[0])
		tag, val := st.ctxValue(ctx, st.ctxKey("ttlCtxKey"))
		dt := types.NewPointer(st.durationType())
		return Val{T: dt, C: []string{ite(eq(tag, e.typeTag(dt)), val, "0")}}
	case "ttlOf":
		ctx := sc.eval(args[0])
		tag, val := st.ctxValue(ctx, st.ctxKey("ttlCtxKey"))
		dt := types.NewPointer(st.durationType())
		if sc.bound == 0 && sc.cur == nil {
			st.instantiateForArray(heapName(e, st.durationType(), ""), val)
		}
		cell := sel(sc.arr(heapName(e, st.durationType(), ""), arrSort(SInt)), val)
		return Val{T: st.durationType(), C: []string{ite(eq(tag, e.typeTag(dt)), cell, "0")}}
	case "durAt": // content of a *time.Duration cell
		p := sc.eval(args[0])
		return Val{T: st.durationType(), C: []string{sel(sc.arr(heapName(e, st.durationType(), ""), arrSort(SInt)), p.C[0])}}
	case "ctxValue": // ctx.Value(key)
		ctx, key := sc.eval(args[0]), sc.eval(args[1])
		tag, val := st.ctxValue(ctx, key)
		return Val{T: types.NewInterfaceType(nil, nil), C: []string{tag, val}}
	case "skipRead":
		ctx := sc.eval(args[0])
		tag, val := st.ctxValue(ctx, st.ctxKey("skipReadCtxKey"))
		return mkBool(and(eq(tag, e.typeTag(tBool)), eq(val, "1")))
	case "ctxValueEq": // ctxValueEq(a, b): contexts a and b expose the same values for every key
		a, b := sc.eval(args[0]), sc.eval(args[1])
		return mkBool(fmt.Sprintf("(forall ((kt Int) (kv Int)) (and (= (ctxval_tag %s %s kt kv) (ctxval_tag %s %s kt kv)) (= (ctxval_val %s %s kt kv) (ctxval_val %s %s kt kv))))",
			a.C[0], a.C[1], b.C[0], b.C[1], a.C[0], a.C[1], b.C[0], b.C[1]))
	case "errIs": // errors.Is(err, target)
		a, b := sc.eval(args[0]), sc.eval(args[1])
		if !types.IsInterface(b.T) {
			b = st.makeInterface(b, a.T)
		}
		return mkBool(st.errIsTerm(a, b))
	case "isError": // isError(v): the dynamic type of interface value v implements error (v is non-nil)
		v := sc.eval(args[0])
		return mkBool(st.implementsTerm(v.C[0], types.Universe.Lookup("error").Type()))
	case "paired": // paired(x): a two-leaf value (an interface) as it is stored in an object of a generic type instantiated with its type
		v := sc.eval(args[0])
		if len(v.C) != 2 {
			sc.fail("paired: not a two-leaf value")
		}
		return Val{T: tInt, C: []string{fmt.Sprintf("(pair %s %s)", v.C[0], v.C[1])}}
	case "unpair": // unpair(x, T): the two-leaf value of type T stored as x in an instantiated generic object
		v := sc.eval(args[0])
		t := sc.resolveType(sc.typeArg(args[1]))
		return Val{T: t, C: []string{fmt.Sprintf("(pair_fst %s)", v.C[0]), fmt.Sprintf("(pair_snd %s)", v.C[0])}}
	case "dyntype": // dyntype(x, T): dynamic type of interface value x is T
		v := sc.eval(args[0])
		t := sc.resolveType(sc.typeArg(args[1]))
		return mkBool(eq(v.C[0], e.typeTag(t)))
	case "payload": // payload(x, T): interface payload read as T
		v := sc.eval(args[0])
		t := sc.resolveType(sc.typeArg(args[1]))
		saved := st.heap
		_ = saved
		return sc.unbox(v.C[1], t)
	case "isExpiredErr": // errors.As(err, &ErrWithExpiredItem) succeeds
		v := sc.eval(args[0])
		return mkBool(st.asExpiredOK(v))
	case "expiredValue": // Value() of the expiry error
		v := sc.eval(args[0])
		return sc.expiredValue(v)
	case "expiredAt": // ts(ExpiredAt()) of the expiry error
		v := sc.eval(args[0])
		return sc.expiredAt(v)
	case "bytes": // content of a byte slice as an abstract string
		v := sc.eval(args[0])
		if isString(v.T) {
			return v
		}
		et := v.T.Underlying().(*types.Slice).Elem()
		a := sc.arr(elemsName(e, et, ""), arr2Sort(SInt))
		return mkStr(ite(eq(v.C[2], "0"), "0", fmt.Sprintf("(bytesof (select %s %s) %s %s)", a, v.C[0], v.C[1], v.C[2])))
	case "hash": // xxhash.Sum64 of content
		v := sc.eval(args[0])
		return Val{T: tUint64, C: []string{"(xxh " + v.C[0] + ")"}}
	case "allocated":
		v := sc.eval(args[0])
		return mkBool(and(not(eq(v.C[0], "0")), allocatedIn(v.C[0], sc.arr(allocName, "Int"))))
	case "fresh": // allocated during this call
		v := sc.eval(args[0])
		return mkBool(and(fmt.Sprintf("(>= %s %s)", v.C[0], st.arrIn(sc.old, allocName, "Int")), allocatedIn(v.C[0], sc.arr(allocName, "Int"))))
	case "base": // backing store identity of a slice
		v := sc.eval(args[0])
		return Val{T: tUntypedInt, C: []string{v.C[0]}}
	case "samestart": // samestart(a, b): slices a and b start at the same element of the same backing store
		a, b := sc.eval(args[0]), sc.eval(args[1])
		if len(a.C) < 4 || len(b.C) < 4 {
			sc.fail("samestart needs two slices")
		}
		return mkBool(and(eq(a.C[0], b.C[0]), eq(a.C[1], b.C[1])))
	case "visited": // visited(k): key k already yielded by the map range of the current loop
		k := sc.eval(args[0])
		id := sc.iterID()
		kt := k.C[0]
		if strings.Contains(id, ".range") {
			// sync.Map keys are interfaces
			if len(k.C) == 1 {
				k = st.makeInterface(k, types.NewInterfaceType(nil, nil))
			}
			kt = smKey(k)
		}
		return mkBool(sel(sc.arr("G|it|"+id+"|visited", "(Array Int Bool)"), kt))
	case "removed": // removed(): ghost count of entries removed from maps / sync.Maps so far
		e.ghostInit["G|removed"] = "(and (>= $ 0) (< $ 4611686018427387904))"
		return Val{T: tInt, C: []string{sc.arr("G|removed", "Int")}}
	case "iterated": // iterated(): ghost count of keys handed out by map range loops / sync.Map.Range so far
		e.ghostInit["G|iterated"] = "(and (>= $ 0) (< $ 4611686018427387904))"
		return Val{T: tInt, C: []string{sc.arr("G|iterated", "Int")}}
	case "visitedCount": // visitedCount(): number of keys the enclosing sync.Map.Range has handed to its callback so far
		it, ok := sc.vars["$iter"]
		if !ok || it.It == nil {
			sc.fail("visitedCount outside a range invariant")
		}
		return Val{T: tInt, C: []string{sc.arr("G|it|"+it.It.ID+"|count", "Int")}}
	case "rangeCount": // rangeCount(n): number of keys the n-th sync.Map.Range of this function has handed to its callback (for postconditions)
		n := sc.intLit(args[0])
		if sc.fr == nil {
			sc.fail("rangeCount outside a function")
		}
		nm := fmt.Sprintf("G|it|%s.range%d|count", sc.fr.fn.RelString(e.P.TPkg), n)
		if _, ok := st.heap[nm]; !ok {
			sc.fail("rangeCount(%d): Range %d has not been executed on this path", n, n)
		}
		return Val{T: tInt, C: []string{sc.arr(nm, "Int")}}
	case "smValuesAre": // smValuesAre(m, T): every value stored in sync.Map m is a non-nil T (for every key, of any type)
		m := sc.eval(args[0])
		t := sc.resolveType(sc.typeArg(args[1]))
		e.refArr[smVVal] = true
		id := st.smID(m)
		e.counter++
		k := q(fmt.Sprintf("kt$%d", e.counter))
		d := sc.arr(smDom, "(Array Int (Array Int Bool))")
		vt := sc.arr(smVTag, arr2Sort(SInt))
		vv := sc.arr(smVVal, arr2Sort(SInt))
		return mkBool(fmt.Sprintf("(forall ((%s Int)) (=> (select (select %s %s) %s) (and (= (select (select %s %s) %s) %s) (not (= (select (select %s %s) %s) 0)))))",
			k, d, id, k, vt, id, k, e.typeTag(t), vv, id, k))
	case "smKeysAre": // smKeysAre(m, T): every key of sync.Map m has dynamic type T
		m := sc.eval(args[0])
		t := sc.resolveType(sc.typeArg(args[1]))
		id := st.smID(m)
		e.counter++
		k := q(fmt.Sprintf("kk$%d", e.counter))
		d := sc.arr(smDom, "(Array Int (Array Int Bool))")
		return mkBool(fmt.Sprintf("(forall ((%s Int)) (! (=> (select (select %s %s) %s) (= (pair_fst %s) %s)) :pattern ((select (select %s %s) %s))))",
			k, d, id, k, k, e.typeTag(t), d, id, k))
	case "smHas": // smHas(m, key): key is present in the sync.Map m
		m, k := sc.eval(args[0]), sc.eval(args[1])
		if len(k.C) == 1 {
			k = st.makeInterface(k, types.NewInterfaceType(nil, nil))
		}
		return mkBool(sel(sel(sc.arr(smDom, "(Array Int (Array Int Bool))"), st.smID(m)), smKey(k)))
	case "smGet": // smGet(m, key): the value stored under key (an interface value)
		m, k := sc.eval(args[0]), sc.eval(args[1])
		if len(k.C) == 1 {
			k = st.makeInterface(k, types.NewInterfaceType(nil, nil))
		}
		e.refArr[smVVal] = true
		id, kt := st.smID(m), smKey(k)
		return Val{T: types.NewInterfaceType(nil, nil), C: []string{sel(sel(sc.arr(smVTag, arr2Sort(SInt)), id), kt), sel(sel(sc.arr(smVVal, arr2Sort(SInt)), id), kt)}}
	case "closed":
		v := sc.eval(args[0])
		return mkBool(sel(sc.arr(chanClosedName, "(Array Int Bool)"), v.C[0]))
	case "real":
		v := sc.eval(args[0])
		if sc.sortOf(v) == SReal {
			return v
		}
		return mkReal("(to_real " + v.C[0] + ")")
	case "abs":
		v := sc.eval(args[0])
		if sc.sortOf(v) == SReal {
			return mkReal("(absr " + v.C[0] + ")")
		}
		return Val{T: v.T, C: []string{"(absi " + v.C[0] + ")"}}
	case "min", "max":
		a, b := sc.eval(args[0]), sc.eval(args[1])
		a, b = sc.coerce(a, b)
		op := "<="
		if x.Name == "max" {
			op = ">="
		}
		return Val{T: a.T, C: []string{ite(fmt.Sprintf("(%s %s %s)", op, a.C[0], b.C[0]), a.C[0], b.C[0])}}
	case "held": // held(lockExpr): the current thread holds the lock (any mode)
		v := sc.eval(args[0])
		_, ok := st.locks[lockID(st, v)]
		if ok {
			return mkBool("true")
		}
		return mkBool("false")
	case "tsTime", "ts": // identity in the model: time.Time is ns since the epoch
		return sc.eval(args[0])
	case "int":
		return sc.eval(args[0])
	case "strcat":
		a, b := sc.eval(args[0]), sc.eval(args[1])
		if a.C[0] == "0" {
			return b
		}
		return mkStr(fmt.Sprintf("(strcat %s %s)", a.C[0], b.C[0]))
	case "funcIs": // funcIs(f, "name"): function value f is the named package function / method
		v := sc.eval(args[0])
		fn := e.P.Funcs[args[1].Name]
		if fn == nil {
			sc.fail("unknown function %q", args[1].Name)
		}
		return mkBool(eq(v.C[0], e.funcID(fn)))
	}
	if f, ok := specFuncs[x.Name]; ok {
		return f(sc, x)
	}
	if d, ok := e.defs[x.Name]; ok {
		if len(d.Params) != len(args) {
			sc.fail("%s expects %d arguments", d.Name, len(d.Params))
		}
		saved := map[string]*Val{}
		var vals []Val
		for _, a := range args {
			vals = append(vals, sc.eval(a))
		}
		for i, pn := range d.Params {
			if old, ok := sc.vars[pn]; ok {
				o := old
				saved[pn] = &o
			} else {
				saved[pn] = nil
			}
			sc.vars[pn] = vals[i]
		}
		res := sc.eval(d.Body.Expr)
		for pn, o := range saved {
			if o == nil {
				delete(sc.vars, pn)
			} else {
				sc.vars[pn] = *o
			}
		}
		return res
	}
	sc.fail("unknown spec function %q", x.Name)
	return Val{}
}

var specFuncs = map[string]func(sc *SpecCtx, x *SExpr) Val{}

func (sc *SpecCtx) typeArg(x *SExpr) string {
	switch x.Op {
	case "ident":
		return x.Name
	case "deref":
		return "*" + sc.typeArg(x.Args[0])
	case "index":
		return sc.typeArg(x.Args[0]) + "[" + sc.typeArg(x.Args[1]) + "]"
	case "str":
		return x.Name
	}
	sc.fail("expected a type name, got %s", x)
	return ""
}

func (sc *SpecCtx) unbox(payload string, t types.Type) Val {
	e := sc.st.e
	comps := e.flatten(t)
	if len(comps) == 1 {
		switch comps[0].Sort {
		case SBool:
			return Val{T: t, C: []string{eq(payload, "1")}}
		case SReal:
			return Val{T: t, C: []string{"(unboxreal " + payload + ")"}}
		}
		return Val{T: t, C: []string{payload}}
	}
	if len(comps) == 0 {
		return Val{T: t}
	}
	return sc.load(&Ptr{Kind: PObj, Root: payload, RootT: t, T: t})
}

func (sc *SpecCtx) iterID() string {
	if v, ok := sc.vars["$iter"]; ok && v.It != nil {
		return v.It.ID
	}
	sc.fail("visited() used outside a map-range loop invariant")
	return ""
}
