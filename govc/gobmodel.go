package main

import (
	"fmt"
	"go/token"
	"go/types"
	"strings"

	"golang.org/x/tools/go/ssa"
)

// Assumed contract of encoding/gob for cache entries (DESIGN.md section 3): the stream is a sequence of records
// (K bytes, V, E, C). Encode appends the record of the entry; Decode consumes one record and assigns ONLY the
// fields that are non-zero in the record, leaving the others of the target as they were, and decodes a byte slice
// into the target's existing backing array when its capacity suffices. At the end of the stream Decode returns io.EOF.

func (st *State) gobArrs(sn *Snapshot) (k, vt, vv, ee, cc string) {
	return st.arrIn(sn, "G|gob|K", "(Array Int Int)"), st.arrIn(sn, "G|gob|Vtag", "(Array Int Int)"), st.arrIn(sn, "G|gob|Vval", "(Array Int Int)"),
		st.arrIn(sn, "G|gob|E", "(Array Int Int)"), st.arrIn(sn, "G|gob|C", "(Array Int Int)")
}

func (st *State) gobPos(sn *Snapshot) string {
	st.e.ghostInit["G|gob|pos"] = "(>= $ 0)"
	return st.arrIn(sn, "G|gob|pos", "Int")
}

func (st *State) gobLen(sn *Snapshot) string {
	st.e.ghostInit["G|gob|len"] = "(and (>= $ 0) (< $ 4611686018427387904))" // a stream holds fewer than 2^62 records
	return st.arrIn(sn, "G|gob|len", "Int")
}

// ioEOF is the fixed error value of io.EOF.
func (st *State) ioEOF() Val {
	e := st.e
	return Val{T: types.Universe.Lookup("error").Type(), C: []string{e.typeTag(e.errorStringType()), "900"}}
}

func modelGobDecode(st *State, fr *Frame, fn *ssa.Function, a []Val, pos token.Pos) (*Val, bool) {
	e := st.e
	target := a[1]
	var id int
	fmt.Sscanf(target.C[0], "%d", &id)
	tt, ok := e.tagTypes[id]
	if !ok {
		e.unsupportedf("gob Decode into a value of unknown type")
	}
	pt, ok := tt.Underlying().(*types.Pointer)
	if !ok {
		e.unsupportedf("gob Decode target is not a pointer")
	}
	et := pt.Elem()
	name := e.P.relType(et)
	if !strings.HasPrefix(name, "TraitEntry") {
		e.unsupportedf("gob Decode into %s not modelled", name)
	}
	obj := &Ptr{Kind: PObj, Root: target.C[1], RootT: et, T: et}
	p, n := st.gobPos(nil), st.gobLen(nil)
	eof := st.ioEOF()
	errT := types.Universe.Lookup("error").Type()
	err := st.freshVal("gob.err", errT)
	isEOF := and(eq(err.C[0], eof.C[0]), eq(err.C[1], eof.C[1]))
	st.assume(fmt.Sprintf("(<= %s %s)", p, n))
	st.assume(implies(eq(p, n), isEOF))
	st.assume(implies(isEOF, eq(p, n)))
	// errors.Is(err, io.EOF) holds for the clean end of stream only (gob reports truncation as io.ErrUnexpectedEOF)
	st.assume(eq(st.errIsTerm(err, eof), isEOF))
	// success path and failure path are explored separately
	fail := st.fork()
	fail.assume(not(eq(err.C[0], "0")))
	fail.path = append(fail.path, "gob.Decode:err")
	ffr := fail.top()
	if sv, ok := fr.block.Instrs[fr.idx-1].(ssa.Value); ok {
		ffr.env[sv] = Val{T: errT, C: err.C}
	}
	// a failed Decode may have written anything into the target
	for _, c := range e.flatten(et) {
		nm := heapName(e, et, c.Path)
		e.noteRef(nm, c)
		arr := fail.arr(nm, arrSort(c.Sort))
		nv := fail.fresh("gob.partial"+c.Path, c.Sort)
		fail.setArr(nm, arrSort(c.Sort), store(arr, obj.Root, nv))
	}
	// success
	st.assume(eq(err.C[0], "0"))
	st.assume(eq(err.C[1], "0"))
	st.assume(fmt.Sprintf("(< %s %s)", p, n))
	rk, rvt, rvv, re, rc := st.gobArrs(nil)
	recK, recVt, recVv, recE, recC := sel(rk, p), sel(rvt, p), sel(rvv, p), sel(re, p), sel(rc, p)
	// a nil interface value has no payload
	st.assume(implies(eq(recVt, "0"), eq(recVv, "0")))
	cur := st.loadPtrQuiet(obj)
	stt := et.Underlying().(*types.Struct)
	field := func(name string) (int, int, types.Type) {
		idx, f := findField(stt, name)
		lo, hi := e.fieldRange(et, idx)
		return lo, hi, f.Type()
	}
	nv := Val{T: et, C: append([]string{}, cur.C...)}
	// K
	{
		lo, _, _ := field("K")
		base, off, ln, cp := cur.C[lo], cur.C[lo+1], cur.C[lo+2], cur.C[lo+3]
		_ = ln
		klen := fmt.Sprintf("(strlen %s)", recK)
		present := fmt.Sprintf("(> %s 0)", klen)
		fits := and(present, fmt.Sprintf("(<= %s %s)", klen, cp), not(eq(base, "0")))
		fresh := st.newRef("gob.K")
		nbase := ite(present, ite(fits, base, fresh), base)
		noff := ite(present, ite(fits, off, "0"), off)
		nlen := ite(present, klen, ln)
		ncap := ite(present, ite(fits, cp, klen), cp)
		nv.C[lo], nv.C[lo+1], nv.C[lo+2], nv.C[lo+3] = nbase, noff, nlen, ncap
		// the bytes of the (possibly reused) backing array now hold the record's key
		bt := st.e.P.TPkg.Scope().Lookup("Key").Type().Underlying().(*types.Slice).Elem()
		en := elemsName(e, bt, "")
		arr := st.arr(en, arr2Sort(SInt))
		inner := st.freshSort("gob.bytes", "(Array Int Int)")
		st.setArr(en, arr2Sort(SInt), ite(present, store(arr, nbase, inner), arr))
		st.assume(implies(present, eq(fmt.Sprintf("(bytesof %s %s %s)", inner, noff, klen), recK)))
		st.written[en] = true
	}
	// V
	{
		lo, hi, ft := field("V")
		if hi-lo == 2 {
			nv.C[lo] = ite(not(eq(recVt, "0")), recVt, cur.C[lo])
			nv.C[lo+1] = ite(not(eq(recVt, "0")), recVv, cur.C[lo+1])
		} else {
			_ = ft
			nv.C[lo] = ite(not(eq(recVv, "0")), recVv, cur.C[lo])
		}
	}
	{
		lo, _, _ := field("E")
		nv.C[lo] = ite(not(eq(recE, "0")), recE, cur.C[lo])
		lo, _, _ = field("C")
		nv.C[lo] = ite(not(eq(recC, "0")), recC, cur.C[lo])
	}
	st.storePtr(obj, nv, pos)
	st.setArr("G|gob|pos", "Int", fmt.Sprintf("(+ %s 1)", p))
	st.written["G|gob|pos"] = true
	e.assumeUsed("encoding/gob (assumed): a record carries only the non-zero fields of the encoded entry; Decode assigns only the fields present and leaves the others of the target untouched; a []byte is decoded into the target's existing backing array when its capacity suffices; io.EOF exactly at the end of the stream")
	return rv(Val{T: errT, C: []string{"0", "0"}})
}

func modelGobEncode(st *State, fr *Frame, fn *ssa.Function, a []Val, pos token.Pos) (*Val, bool) {
	e := st.e
	v := a[1] // interface holding the entry (Entry -> *TraitEntry, or a TraitEntry value)
	var id int
	fmt.Sscanf(v.C[0], "%d", &id)
	tt, ok := e.tagTypes[id]
	errT := types.Universe.Lookup("error").Type()
	if !ok || strings.HasPrefix(v.C[0], "(") {
		// unknown dynamic type: nothing is known about the record
		res := st.freshVal("gob.encerr", errT)
		return &res, true
	}
	et := tt
	root := v.C[1]
	if pt, isPtr := tt.Underlying().(*types.Pointer); isPtr {
		et = pt.Elem()
	}
	if !strings.HasPrefix(e.P.relType(et), "TraitEntry") {
		res := st.freshVal("gob.encerr", errT)
		return &res, true
	}
	ent := st.loadPtrQuiet(&Ptr{Kind: PObj, Root: root, RootT: et, T: et})
	stt := et.Underlying().(*types.Struct)
	get := func(name string) []string {
		idx, _ := findField(stt, name)
		lo, hi := e.fieldRange(et, idx)
		return ent.C[lo:hi]
	}
	n := st.gobLen(nil)
	k := get("K")
	kv := Val{T: e.P.TPkg.Scope().Lookup("Key").Type(), C: k}
	names := []string{"G|gob|K", "G|gob|Vtag", "G|gob|Vval", "G|gob|E", "G|gob|C"}
	vals := []string{st.bytesOf(kv)}
	if vv := get("V"); len(vv) == 2 {
		vals = append(vals, vv[0], vv[1])
	} else {
		vals = append(vals, "1", vv[0])
	}
	vals = append(vals, get("E")[0], get("C")[0])
	// ghost bookkeeping for contracts: which object record n was encoded from, and at which index an object was
	// encoded last
	names = append(names, "G|gob|src")
	vals = append(vals, root)
	err := st.freshVal("gob.encerr", errT)
	{
		arr := st.arr("G|gob|idx", "(Array Int Int)")
		st.setArr("G|gob|idx", "(Array Int Int)", ite(eq(err.C[0], "0"), store(arr, root, n), arr))
		st.written["G|gob|idx"] = true
	}
	for i, nm := range names {
		arr := st.arr(nm, "(Array Int Int)")
		st.setArr(nm, "(Array Int Int)", ite(eq(err.C[0], "0"), store(arr, n, vals[i]), arr))
		st.written[nm] = true
	}
	st.setArr("G|gob|len", "Int", ite(eq(err.C[0], "0"), fmt.Sprintf("(+ %s 1)", n), n))
	st.written["G|gob|len"] = true
	st.assume(fmt.Sprintf("(< %s 4611686018427387903)", n))
	e.assumeUsed("encoding/gob (assumed): a stream holds fewer than 2^62 records (physical bound; keeps entry counters from overflowing)")
	return &err, true
}

func init() {
	models["(*encoding/gob.Decoder).Decode"] = modelGobDecode
	models["(*encoding/gob.Encoder).Encode"] = modelGobEncode
	models["encoding/gob.NewDecoder"] = func(st *State, fr *Frame, fn *ssa.Function, a []Val, pos token.Pos) (*Val, bool) {
		return rv(Val{C: []string{st.newRef("gob.decoder")}})
	}
	models["encoding/gob.NewEncoder"] = func(st *State, fr *Frame, fn *ssa.Function, a []Val, pos token.Pos) (*Val, bool) {
		return rv(Val{C: []string{st.newRef("gob.encoder")}})
	}
	specFuncs["gobPos"] = func(sc *SpecCtx, x *SExpr) Val { return Val{T: tInt, C: []string{sc.st.gobPos(sc.cur)}} }
	specFuncs["gobLen"] = func(sc *SpecCtx, x *SExpr) Val { return Val{T: tInt, C: []string{sc.st.gobLen(sc.cur)}} }
	specFuncs["gobSrc"] = func(sc *SpecCtx, x *SExpr) Val { // gobSrc(j, *T): the object record j was encoded from
		t := sc.resolveType(sc.typeArg(x.Args[1]))
		a := sc.st.arrIn(sc.cur, "G|gob|src", "(Array Int Int)")
		return Val{T: t, C: []string{sel(a, sc.eval(x.Args[0]).C[0])}}
	}
	specFuncs["gobIdx"] = func(sc *SpecCtx, x *SExpr) Val { // gobIdx(p): the index at which object p was encoded last
		a := sc.st.arrIn(sc.cur, "G|gob|idx", "(Array Int Int)")
		return Val{T: tInt, C: []string{sel(a, sc.eval(x.Args[0]).C[0])}}
	}
	specFuncs["gobK"] = func(sc *SpecCtx, x *SExpr) Val {
		k, _, _, _, _ := sc.st.gobArrs(sc.cur)
		return mkStr(sel(k, sc.eval(x.Args[0]).C[0]))
	}
	specFuncs["gobV"] = func(sc *SpecCtx, x *SExpr) Val {
		_, vt, vv, _, _ := sc.st.gobArrs(sc.cur)
		j := sc.eval(x.Args[0]).C[0]
		return Val{T: types.NewInterfaceType(nil, nil), C: []string{sel(vt, j), sel(vv, j)}}
	}
	specFuncs["gobVOf"] = func(sc *SpecCtx, x *SExpr) Val {
		_, _, vv, _, _ := sc.st.gobArrs(sc.cur)
		j := sc.eval(x.Args[0]).C[0]
		return Val{T: tUntypedInt, C: []string{sel(vv, j)}}
	}
	specFuncs["gobE"] = func(sc *SpecCtx, x *SExpr) Val {
		_, _, _, ee, _ := sc.st.gobArrs(sc.cur)
		return Val{T: tInt64, C: []string{sel(ee, sc.eval(x.Args[0]).C[0])}}
	}
	specFuncs["gobC"] = func(sc *SpecCtx, x *SExpr) Val {
		_, _, _, _, cc := sc.st.gobArrs(sc.cur)
		return Val{T: tInt64, C: []string{sel(cc, sc.eval(x.Args[0]).C[0])}}
	}
}
