package main

import (
	"fmt"
	"strings"
)

// sexprChildren returns the immediate children of a list "(a b (c d))" -> ["a","b","(c d)"]; nil if s is an atom.
func sexprChildren(s string) []string {
	s = strings.TrimSpace(s)
	if len(s) < 2 || s[0] != '(' || s[len(s)-1] != ')' {
		return nil
	}
	var out []string
	depth := 0
	start := -1
	inBar := false
	body := s[1 : len(s)-1]
	for i := 0; i < len(body); i++ {
		c := body[i]
		if inBar {
			if c == '|' {
				inBar = false
				if depth == 0 {
					out = append(out, body[start:i+1])
					start = -1
				}
			}
			continue
		}
		switch c {
		case '|':
			inBar = true
			if depth == 0 && start < 0 {
				start = i
			}
		case '(':
			if depth == 0 && start < 0 {
				start = i
			}
			depth++
		case ')':
			depth--
			if depth == 0 {
				out = append(out, body[start:i+1])
				start = -1
			}
		case ' ', '\n', '\t':
			if depth == 0 && start >= 0 {
				out = append(out, body[start:i])
				start = -1
			}
		default:
			if depth == 0 && start < 0 {
				start = i
			}
		}
	}
	if start >= 0 {
		out = append(out, body[start:])
	}
	return out
}

// subgoal is one conjunct of an obligation: prove concl under the extra hypotheses, for fresh skolem constants.
type subgoal struct {
	skolems []string // declarations "(declare-const name Sort)"
	names   []string // skolem names by sort Int (used to instantiate universally quantified hypotheses)
	hyps    []string
	concl   string
}

// splitGoal decomposes a goal along top-level conjunctions, implications and single-variable universal quantifiers.
func splitGoal(goal string, counter *int) []subgoal {
	var out []subgoal
	var rec func(g string, sg subgoal, depth int)
	rec = func(g string, sg subgoal, depth int) {
		ch := sexprChildren(g)
		if depth < 6 && len(ch) >= 2 {
			switch ch[0] {
			case "and":
				for _, c := range ch[1:] {
					rec(c, sg, depth+1)
				}
				return
			case "=>":
				if len(ch) == 3 {
					n := sg
					n.hyps = append(append([]string{}, sg.hyps...), ch[1])
					rec(ch[2], n, depth+1)
					return
				}
			case "forall":
				if len(ch) == 3 {
					binders := sexprChildren(ch[1])
					body := ch[2]
					// strip pattern annotations
					if bc := sexprChildren(body); len(bc) >= 2 && bc[0] == "!" {
						body = bc[1]
					}
					n := sg
					n.skolems = append([]string{}, sg.skolems...)
					n.names = append([]string{}, sg.names...)
					ok := true
					for _, b := range binders {
						bv := sexprChildren(b)
						if len(bv) != 2 || !strings.HasPrefix(bv[0], "|") {
							ok = false
							break
						}
						*counter++
						sk := fmt.Sprintf("|sk!%d|", *counter)
						n.skolems = append(n.skolems, fmt.Sprintf("(declare-const %s %s)", sk, bv[1]))
						if bv[1] == "Int" {
							n.names = append(n.names, sk)
						}
						body = strings.ReplaceAll(body, bv[0], sk)
					}
					if ok {
						rec(body, n, depth+1)
						return
					}
				}
			}
		}
		sg.concl = g
		// terms that wrap a skolem constant as an interface-keyed map key are instantiation candidates too
		text := g + " " + strings.Join(sg.hyps, " ")
		for _, sk := range append([]string{}, sg.names...) {
			idx := 0
			for n := 0; n < 4; n++ {
				i := strings.Index(text[idx:], " "+sk+")")
				if i < 0 {
					break
				}
				j := strings.LastIndex(text[:idx+i], "(pair ")
				if j >= 0 && !strings.ContainsAny(text[j+6:idx+i], "() ") {
					t := text[j : idx+i+len(sk)+2]
					dup := false
					for _, x := range sg.names {
						if x == t {
							dup = true
						}
					}
					if !dup {
						sg.names = append(sg.names, t)
					}
				}
				idx += i + 1
			}
		}
		out = append(out, sg)
	}
	rec(goal, subgoal{}, 0)
	return out
}

// instantiateAt returns instances of a universally quantified assertion at the given terms:
// "(forall ((|x| Int)) body)" -> body[x:=t] for each t (single Int binder with a unique quoted name only).
func instantiateAt(assertion string, terms []string) []string {
	ch := sexprChildren(assertion)
	if len(ch) != 3 || ch[0] != "forall" {
		return nil
	}
	binders := sexprChildren(ch[1])
	if len(binders) != 1 {
		return nil
	}
	bv := sexprChildren(binders[0])
	if len(bv) != 2 || bv[1] != "Int" {
		return nil
	}
	body := ch[2]
	if bc := sexprChildren(body); len(bc) >= 2 && bc[0] == "!" {
		body = bc[1]
	}
	var out []string
	for _, t := range terms {
		out = append(out, substToken(body, bv[0], t))
	}
	return out
}

// substToken replaces every occurrence of the symbol `name` (as a whole token) by term.
func substToken(s, name, term string) string {
	var b strings.Builder
	i := 0
	delim := func(c byte) bool { return c == '(' || c == ')' || c == ' ' || c == '\n' || c == '\t' }
	for i < len(s) {
		if strings.HasPrefix(s[i:], name) && (i == 0 || delim(s[i-1])) && (i+len(name) == len(s) || delim(s[i+len(name)])) {
			b.WriteString(term)
			i += len(name)
			continue
		}
		if s[i] == '|' { // skip quoted symbols atomically
			j := strings.IndexByte(s[i+1:], '|')
			if j >= 0 {
				b.WriteString(s[i : i+j+2])
				i += j + 2
				continue
			}
		}
		b.WriteByte(s[i])
		i++
	}
	return b.String()
}
