package main

import (
	"bufio"
	"fmt"
	"os"
	"regexp"
	"strconv"
	"strings"
	"unicode"
)

// ---- contract file structure ----

type MapStoreRule struct {
	Type   string
	Clause *Clause
}

type Clause struct {
	Label string   // [C06.min]
	Props []string // property ids (from label prefix or block props)
	Text  string
	Expr  *SExpr
	Line  int
	Flags map[string]bool
}

type LoopSpec struct {
	Ordinal    int
	Invariants []*Clause
	Modifies   []string
	Ghosts     []*GhostSet
	After      []*Clause // asserted at the end of every iteration only
}

type Contract struct {
	Name            string
	Props           []string
	Requires        []*Clause
	Ensures         []*Clause
	Lets            []*Clause // Label = name
	Loops           map[int]*LoopSpec
	Ranges          map[int]*LoopSpec // sync.Map.Range call sites, by ordinal
	Frames          map[string][]string
	Modifies        []string
	Inline          bool
	ReplayFor       [][3]string
	Assumed         bool
	Pure            bool        // modifies nothing (checked)
	Trusted         bool        // contract assumed, body not verified (externals)
	Thread          bool        // body runs as its own goroutine
	Holds           [][3]string // tokens owned at entry (thread closures)
	Flags           map[string]string
	Like            string
	Subst           [][2]string
	Guards          []GuardRule          // type blocks: field/call-out guard discipline
	LockInvs        map[string][]*Clause // type blocks: mutex field -> invariant clauses over "self"
	Interference    bool                 // type blocks: guarded fields are havocked at Lock (other threads may have changed them)
	TokenMaps       []string
	AtomicFields    []string // accessed only through sync/atomic once the object is shared
	ImmutableFields []string // never written once the object is shared
	NoCallOut       []string
	MapInserts      map[string][]*Clause
	MapStores       []MapStoreRule // function level: obligation at every store into a map of the given type
	OnCalls         []MapStoreRule // function level: obligation before every call of the named function (Type = its short name)
	ChanPubs        map[string][]*Clause
	Published       map[string][]string
	Line            int
	File            string
}

// GuardRule: accesses of Field (or call-outs of kind Field when CallOut) need the sibling mutex Lock.
type GuardRule struct {
	Field   string
	Lock    string
	CallOut bool
	Props   []string
}

var labelRe = regexp.MustCompile(`^\[([A-Za-z0-9_.,\-]+)\]\s*`)

// parseContracts reads //@ lines from a file.
// SpecDef is a global specification macro.
// GhostSet is a ghost array update attached to a loop.
type GhostSet struct {
	Name  string
	Index *Clause
	Value *Clause
}

type SpecDef struct {
	Name   string
	Params []string
	Body   *Clause
	Line   int
}

func parseContracts(path string) ([]*Contract, []*SpecDef, error) {
	f, err := os.Open(path)
	if err != nil {
		return nil, nil, err
	}
	defer f.Close()
	var out []*Contract
	var defs []*SpecDef
	var framePending *Contract
	framePendingName := ""
	var cur *Contract
	var last *Clause
	sc := bufio.NewScanner(f)
	sc.Buffer(make([]byte, 1<<20), 1<<20)
	ln := 0
	for sc.Scan() {
		ln++
		line := strings.TrimSpace(sc.Text())
		if !strings.HasPrefix(line, "//@") {
			if !strings.HasPrefix(line, "//") {
				last = nil
			}
			continue
		}
		body := strings.TrimSpace(line[3:])
		if body == "" {
			continue
		}
		if i := strings.Index(body, " //"); i >= 0 && !strings.Contains(body[:i], "\"") {
			body = strings.TrimSpace(body[:i])
		}
		word, rest := splitWord(body)
		if word == "frame" {
			// frame name := pattern pattern ...   (named list of heap/ghost patterns, used as @name in modifies)
			i := strings.Index(rest, ":=")
			if i < 0 {
				return nil, nil, fmt.Errorf("%s:%d: malformed frame", path, ln)
			}
			fc := &Contract{Name: "frame " + strings.TrimSpace(rest[:i]), Loops: map[int]*LoopSpec{}, Ranges: map[int]*LoopSpec{}, Flags: map[string]string{}, Frames: map[string][]string{}}
			fc.Frames[strings.TrimSpace(rest[:i])] = strings.Fields(rest[i+2:])
			fc.Trusted = true
			out = append(out, fc)
			framePending = fc
			framePendingName = strings.TrimSpace(rest[:i])
			last = nil
			cur = nil
			continue
		}
		if framePending != nil && cur == nil && last == nil && word != "def" && word != "func" && word != "type" && word != "iface" && word != "callout" {
			framePending.Frames[framePendingName] = append(framePending.Frames[framePendingName], strings.Fields(body)...)
			continue
		}
		framePending = nil
		if word == "def" {
			// def name(p1, p2) := expr   (global specification macro)
			i := strings.Index(rest, ":=")
			j := strings.Index(rest, "(")
			k := strings.Index(rest, ")")
			if i < 0 || j < 0 || k < j || k > i {
				return nil, nil, fmt.Errorf("%s:%d: malformed def", path, ln)
			}
			d := &SpecDef{Name: strings.TrimSpace(rest[:j]), Line: ln}
			for _, a := range strings.Split(rest[j+1:k], ",") {
				if a = strings.TrimSpace(a); a != "" {
					d.Params = append(d.Params, a)
				}
			}
			d.Body = &Clause{Text: strings.TrimSpace(rest[i+2:]), Line: ln, Flags: map[string]bool{}}
			defs = append(defs, d)
			last = d.Body
			cur = nil
			continue
		}
		switch word {
		case "func", "iface", "callout", "type":
			cur = &Contract{Name: rest, Loops: map[int]*LoopSpec{}, Ranges: map[int]*LoopSpec{}, Line: ln, File: path, Flags: map[string]string{}}
			if word == "type" {
				cur.Name = "type " + rest
			}
			if word == "iface" || word == "callout" {
				cur.Trusted = true
			}
			out = append(out, cur)
			last = nil
			continue
		}
		if cur == nil {
			if last != nil {
				last.Text += " " + body
				continue
			}
			return nil, nil, fmt.Errorf("%s:%d: clause outside of a func block", path, ln)
		}
		mk := func(text string) *Clause {
			c := &Clause{Text: text, Line: ln, Flags: map[string]bool{}}
			if m := labelRe.FindStringSubmatch(text); m != nil {
				c.Label = m[1]
				c.Text = text[len(m[0]):]
			}
			return c
		}
		switch word {
		case "props":
			cur.Props = strings.Fields(rest)
			last = nil
		case "like":
			// like <other contract> [subst A=B ...]: copy the clauses of another block, renaming identifiers
			i := strings.Index(rest, " subst ")
			cur.Like = strings.TrimSpace(rest)
			if i >= 0 {
				cur.Like = strings.TrimSpace(rest[:i])
				for _, kv := range strings.Fields(rest[i+7:]) {
					if j := strings.Index(kv, "="); j > 0 {
						cur.Subst = append(cur.Subst, [2]string{kv[:j], kv[j+1:]})
					}
				}
			}
			last = nil
		case "inline":
			cur.Inline = true
			last = nil
		case "assumed":
			// the contract of a package function whose body is not verified (listed as an assumption)
			cur.Assumed = true
			last = nil
		case "pure":
			cur.Pure = true
			last = nil
		case "trusted":
			cur.Trusted = true
			last = nil
		case "thread":
			cur.Thread = true
			last = nil
		case "holds":
			// holds <key expr> <object expr> <Type.field>: the thread starts owning this build token
			f := strings.Fields(rest)
			if len(f) != 3 {
				return nil, nil, fmt.Errorf("%s:%d: holds <keyexpr> <objexpr> <Type.field> (expressions without spaces)", path, ln)
			}
			cur.Holds = append(cur.Holds, [3]string{f[0], f[1], f[2]})
			last = nil
		case "guardedby", "calloutunder":
			f := strings.Fields(rest)
			if len(f) < 2 {
				return nil, nil, fmt.Errorf("%s:%d: %s needs <field> <mutex>", path, ln, word)
			}
			cur.Guards = append(cur.Guards, GuardRule{Field: f[0], Lock: f[1], CallOut: word == "calloutunder", Props: f[2:]})
			last = nil
		case "interference":
			cur.Interference = true
			last = nil
		case "atomic":
			cur.AtomicFields = append(cur.AtomicFields, strings.Fields(rest)...)
			last = nil
		case "immutable":
			cur.ImmutableFields = append(cur.ImmutableFields, strings.Fields(rest)...)
			last = nil
		case "nocallout":
			cur.NoCallOut = append(cur.NoCallOut, strings.Fields(rest)...)
			last = nil
		case "tokenmap":
			cur.TokenMaps = append(cur.TokenMaps, strings.Fields(rest)...)
			last = nil
		case "mapinsert":
			// mapinsert <field> assume <expr over key, value>
			f, r2 := splitWord(rest)
			w, r3 := splitWord(r2)
			if w != "assume" {
				return nil, nil, fmt.Errorf("%s:%d: mapinsert <field> assume <expr>", path, ln)
			}
			last = mk(r3)
			if cur.MapInserts == nil {
				cur.MapInserts = map[string][]*Clause{}
			}
			cur.MapInserts[f] = append(cur.MapInserts[f], last)
		case "oncall":
			// oncall <function short name> [label] <expr over the caller's locals>: checked in the caller's state
			// right before every call of that function made by this function
			f, r2 := splitWord(rest)
			last = mk(r2)
			cur.OnCalls = append(cur.OnCalls, MapStoreRule{Type: f, Clause: last})
		case "mapstore":
			// mapstore <map type without spaces> [label] <expr over at (the key), value, prev, had and the locals>: checked at every store
			// into a map of that type executed by this function (inlined closures included); prev is the value
			// stored under the key before (the zero value if had is false)
			f, r2 := splitWord(rest)
			last = mk(r2)
			cur.MapStores = append(cur.MapStores, MapStoreRule{Type: f, Clause: last})
		case "chanpub":
			// chanpub <chanfield> <expr over self>: close requires it, a completed receive may assume it
			f, r2 := splitWord(rest)
			last = mk(r2)
			if cur.ChanPubs == nil {
				cur.ChanPubs = map[string][]*Clause{}
			}
			cur.ChanPubs[f] = append(cur.ChanPubs[f], last)
		case "published":
			// published <chanfield> <fields...>: written only by the token holder before close, read after a receive
			f := strings.Fields(rest)
			if len(f) < 2 {
				return nil, nil, fmt.Errorf("%s:%d: published <chanfield> <fields>", path, ln)
			}
			if cur.Published == nil {
				cur.Published = map[string][]string{}
			}
			cur.Published[f[0]] = append(cur.Published[f[0]], f[1:]...)
			last = nil
		case "lockinv":
			mf, r2 := splitWord(rest)
			last = mk(r2)
			if cur.LockInvs == nil {
				cur.LockInvs = map[string][]*Clause{}
			}
			cur.LockInvs[mf] = append(cur.LockInvs[mf], last)
		case "replayfor":
			// replayfor <obligation substring> <driver> [name:=literal ...]: the driver for obligations whose name
			// contains the substring (the plain "replay" line is the default driver of the function)
			sub, r2 := splitWord(rest)
			drv, consts := splitWord(r2)
			cur.ReplayFor = append(cur.ReplayFor, [3]string{sub, drv, consts})
			last = nil
		case "replay":
			k, v := splitWord(rest)
			cur.Flags["replay"] = k
			cur.Flags["replay_terms"] = v
			last = nil
		case "flag":
			k, v := splitWord(rest)
			if v == "" {
				v = "yes"
			}
			cur.Flags[k] = v
			last = nil
		case "requires":
			last = mk(rest)
			cur.Requires = append(cur.Requires, last)
		case "ensures":
			last = mk(rest)
			cur.Ensures = append(cur.Ensures, last)
		case "let":
			parts := strings.SplitN(rest, ":=", 2)
			if len(parts) != 2 {
				return nil, nil, fmt.Errorf("%s:%d: let needs :=", path, ln)
			}
			last = &Clause{Label: strings.TrimSpace(parts[0]), Text: strings.TrimSpace(parts[1]), Line: ln, Flags: map[string]bool{}}
			cur.Lets = append(cur.Lets, last)
		case "modifies":
			cur.Modifies = append(cur.Modifies, strings.Fields(rest)...)
			last = nil
		case "loop", "range":
			nstr, r2 := splitWord(rest)
			n, err := strconv.Atoi(nstr)
			if err != nil {
				return nil, nil, fmt.Errorf("%s:%d: loop ordinal: %v", path, ln, err)
			}
			tbl := cur.Loops
			if word == "range" {
				tbl = cur.Ranges
			}
			ls := tbl[n]
			if ls == nil {
				ls = &LoopSpec{Ordinal: n}
				tbl[n] = ls
			}
			// optional "(description)"
			r2 = strings.TrimSpace(r2)
			if strings.HasPrefix(r2, "(") {
				if j := matchParen(r2, 0); j > 0 {
					r2 = strings.TrimSpace(r2[j+1:])
				}
			}
			w2, r3 := splitWord(r2)
			switch w2 {
			case "invariant":
				last = mk(r3)
				ls.Invariants = append(ls.Invariants, last)
			case "afterbody":
				// an assertion at the end of every iteration (back edge): not assumed at the header, not checked on entry
				last = mk(r3)
				ls.After = append(ls.After, last)
			case "modifies":
				ls.Modifies = append(ls.Modifies, strings.Fields(r3)...)
				last = nil
			case "ghost":
				// ghost <name>[<index expr>] := <value expr>: a ghost array update executed at the end of every
				// iteration (before the invariant is re-established); read in specs as ghost(<name>, <index>)
				i1, i2, i3 := strings.Index(r3, "["), strings.Index(r3, "] :="), strings.Index(r3, ":=")
				if i1 <= 0 || i2 < i1 || i3 < i2 {
					return nil, nil, fmt.Errorf("%s:%d: ghost <name>[<index>] := <value>", path, ln)
				}
				g := &GhostSet{Name: strings.TrimSpace(r3[:i1]), Index: &Clause{Text: strings.TrimSpace(r3[i1+1 : i2]), Line: ln, Flags: map[string]bool{}},
					Value: &Clause{Text: strings.TrimSpace(r3[i3+2:]), Line: ln, Flags: map[string]bool{}}}
				ls.Ghosts = append(ls.Ghosts, g)
				last = g.Value
			case "":
				last = nil
			default:
				return nil, nil, fmt.Errorf("%s:%d: unknown loop clause %q", path, ln, w2)
			}
		default:
			// continuation of the previous clause
			if last == nil {
				return nil, nil, fmt.Errorf("%s:%d: unknown clause %q", path, ln, word)
			}
			last.Text += " " + body
		}
	}
	byName := map[string]*Contract{}
	for _, c := range out {
		byName[c.Name] = c
	}
	for _, c := range out {
		if c.Like == "" {
			continue
		}
		src := byName[c.Like]
		if src == nil {
			return nil, nil, fmt.Errorf("%s:%d: like: unknown block %q", path, c.Line, c.Like)
		}
		// definitions whose body mentions a substituted identifier (directly or through another definition) get a
		// substituted copy, and the copied clauses call the copy: entriesKept() of a generic twin must speak
		// about the twin's entry type
		hasIdent := func(s, id string) bool { return replaceIdent(s, id, "\x00") != s }
		affected := map[string]bool{}
		for changed := true; changed; {
			changed = false
			for _, d := range defs {
				if affected[d.Name] || strings.Contains(d.Name, "__") {
					continue
				}
				hit := false
				for _, kv := range c.Subst {
					isParam := false
					for _, pn := range d.Params {
						if pn == kv[0] {
							isParam = true
						}
					}
					if !isParam && hasIdent(d.Body.Text, kv[0]) {
						hit = true
					}
				}
				for n := range affected {
					if hasIdent(d.Body.Text, n) {
						hit = true
					}
				}
				if hit {
					affected[d.Name] = true
					changed = true
				}
			}
		}
		suffix := "__"
		for _, kv := range c.Subst {
			suffix += sanitizeIdent(kv[0] + "_" + kv[1] + "_")
		}
		sub := func(s string) string {
			for _, kv := range c.Subst {
				s = replaceIdent(s, kv[0], kv[1])
			}
			for n := range affected {
				s = replaceIdent(s, n, n+suffix)
			}
			return s
		}
		for _, d := range append([]*SpecDef{}, defs...) {
			if !affected[d.Name] {
				continue
			}
			dup := false
			for _, d2 := range defs {
				if d2.Name == d.Name+suffix {
					dup = true
				}
			}
			if dup {
				continue
			}
			body := d.Body.Text
			for _, kv := range c.Subst {
				isParam := false
				for _, pn := range d.Params {
					if pn == kv[0] {
						isParam = true
					}
				}
				if !isParam {
					body = replaceIdent(body, kv[0], kv[1])
				}
			}
			for n := range affected {
				body = replaceIdent(body, n, n+suffix)
			}
			defs = append(defs, &SpecDef{Name: d.Name + suffix, Params: d.Params, Line: d.Line, Body: &Clause{Text: body, Line: d.Body.Line, Flags: map[string]bool{}}})
		}
		cp := func(cs []*Clause) []*Clause {
			var o []*Clause
			for _, cl := range cs {
				o = append(o, &Clause{Label: cl.Label, Text: sub(cl.Text), Line: cl.Line, Flags: map[string]bool{}})
			}
			return o
		}
		for _, h := range src.Holds {
			c.Holds = append(c.Holds, [3]string{sub(h[0]), sub(h[1]), sub(h[2])})
		}
		if src.Thread {
			c.Thread = true
		}
		if src.Pure {
			c.Pure = true
		}
		c.Requires = append(cp(src.Requires), c.Requires...)
		c.Ensures = append(cp(src.Ensures), c.Ensures...)
		c.Lets = append(cp(src.Lets), c.Lets...)
		for n, l := range src.Loops {
			nl := &LoopSpec{Ordinal: n, Invariants: cp(l.Invariants), After: cp(l.After)}
			for _, g := range l.Ghosts {
				nl.Ghosts = append(nl.Ghosts, &GhostSet{Name: g.Name, Index: cp([]*Clause{g.Index})[0], Value: cp([]*Clause{g.Value})[0]})
			}
			for _, m := range l.Modifies {
				nl.Modifies = append(nl.Modifies, sub(m))
			}
			if ex := c.Loops[n]; ex != nil {
				nl.Invariants = append(nl.Invariants, ex.Invariants...)
				nl.After = append(nl.After, ex.After...)
			}
			c.Loops[n] = nl
		}
		for n, l := range src.Ranges {
			c.Ranges[n] = &LoopSpec{Ordinal: n, Invariants: cp(l.Invariants)}
		}
		for _, m := range src.Modifies {
			c.Modifies = append(c.Modifies, sub(m))
		}
		if len(c.Props) == 0 {
			c.Props = src.Props
		}
		if len(c.ReplayFor) == 0 {
			c.ReplayFor = append(c.ReplayFor, src.ReplayFor...)
		}
		for k, v := range src.Flags {
			if _, ok := c.Flags[k]; !ok {
				c.Flags[k] = sub(v)
			}
		}
	}
	for _, d := range defs {
		ex, err := parseSpecExpr(d.Body.Text)
		if err != nil {
			return nil, nil, fmt.Errorf("%s:%d: %v in def %s", path, d.Line, err, d.Name)
		}
		d.Body.Expr = ex
	}
	// parse expressions
	for _, c := range out {
		all := append(append(append([]*Clause{}, c.Requires...), c.Ensures...), c.Lets...)
		for _, l := range c.Loops {
			all = append(all, l.Invariants...)
			for _, g := range l.Ghosts {
				all = append(all, g.Index, g.Value)
			}
		}
		for _, l := range c.Loops {
			all = append(all, l.After...)
		}
		for _, l := range c.Ranges {
			all = append(all, l.Invariants...)
			for _, g := range l.Ghosts {
				all = append(all, g.Index, g.Value)
			}
		}
		for _, ls := range c.LockInvs {
			all = append(all, ls...)
		}
		for _, ls := range c.MapInserts {
			all = append(all, ls...)
		}
		for _, r := range c.MapStores {
			all = append(all, r.Clause)
		}
		for _, r := range c.OnCalls {
			all = append(all, r.Clause)
		}
		for _, ls := range c.ChanPubs {
			all = append(all, ls...)
		}
		for _, cl := range all {
			ex, err := parseSpecExpr(cl.Text)
			if err != nil {
				return nil, nil, fmt.Errorf("%s:%d: %v in %q", path, cl.Line, err, cl.Text)
			}
			cl.Expr = ex
			if cl.Label != "" {
				for _, part := range strings.Split(cl.Label, ",") {
					if i := strings.Index(part, "."); i > 0 && isPropID(part[:i]) {
						cl.Props = append(cl.Props, part[:i])
					} else if isPropID(part) {
						cl.Props = append(cl.Props, part)
					}
				}
			}
			if len(cl.Props) == 0 {
				cl.Props = c.Props
			}
		}
	}
	return out, defs, sc.Err()
}

func isPropID(s string) bool {
	if len(s) < 3 || s[0] != 'C' {
		return false
	}
	for _, r := range s[1:] {
		if !unicode.IsDigit(r) {
			return false
		}
	}
	return true
}

func splitWord(s string) (string, string) {
	s = strings.TrimSpace(s)
	i := strings.IndexAny(s, " \t")
	if i < 0 {
		return s, ""
	}
	return s[:i], strings.TrimSpace(s[i+1:])
}

func matchParen(s string, i int) int {
	d := 0
	for j := i; j < len(s); j++ {
		switch s[j] {
		case '(':
			d++
		case ')':
			d--
			if d == 0 {
				return j
			}
		}
	}
	return -1
}

// ---- expression language ----

// SExpr is a parsed specification expression.
type SExpr struct {
	Op   string // ident, int, float, str, call, sel, index, unary, binary, cond, forall, exists, deref
	Name string // identifier / operator / field name / function name
	Args []*SExpr
	Var  string // quantifier variable
	VarT string // quantifier variable type
}

func (x *SExpr) String() string {
	switch x.Op {
	case "ident", "int", "float":
		return x.Name
	case "str":
		return strconv.Quote(x.Name)
	case "call":
		var as []string
		for _, a := range x.Args {
			as = append(as, a.String())
		}
		return x.Name + "(" + strings.Join(as, ", ") + ")"
	case "sel":
		return x.Args[0].String() + "." + x.Name
	case "index":
		return x.Args[0].String() + "[" + x.Args[1].String() + "]"
	case "unary":
		return x.Name + x.Args[0].String()
	case "deref":
		return "*" + x.Args[0].String()
	case "binary":
		return "(" + x.Args[0].String() + " " + x.Name + " " + x.Args[1].String() + ")"
	case "cond":
		return "(" + x.Args[0].String() + " ? " + x.Args[1].String() + " : " + x.Args[2].String() + ")"
	case "forall", "exists":
		return "(" + x.Op + " " + x.Var + " " + x.VarT + " :: " + x.Args[0].String() + ")"
	}
	return "?"
}

type tok struct {
	kind string // id, int, float, str, op, eof
	text string
}

func lexSpec(s string) ([]tok, error) {
	var ts []tok
	i := 0
	ops := []string{"<==>", "==>", "::", "&&", "||", "==", "!=", "<=", ">=", "<", ">", "+", "-", "*", "/", "%", "!", "(", ")", "[", "]", ".", ",", "?", ":", "^"}
	for i < len(s) {
		c := s[i]
		if c == ' ' || c == '\t' {
			i++
			continue
		}
		if c == '"' {
			j := i + 1
			for j < len(s) && s[j] != '"' {
				if s[j] == '\\' {
					j++
				}
				j++
			}
			if j >= len(s) {
				return nil, fmt.Errorf("unterminated string")
			}
			u, err := strconv.Unquote(s[i : j+1])
			if err != nil {
				return nil, err
			}
			ts = append(ts, tok{"str", u})
			i = j + 1
			continue
		}
		if unicode.IsDigit(rune(c)) {
			j := i
			isF := false
			for j < len(s) && (unicode.IsDigit(rune(s[j])) || s[j] == '.' || s[j] == 'e' || s[j] == '_') {
				if s[j] == '.' {
					if j+1 < len(s) && !unicode.IsDigit(rune(s[j+1])) {
						break
					}
					isF = true
				}
				if s[j] == 'e' {
					isF = true
					if j+1 < len(s) && (s[j+1] == '-' || s[j+1] == '+') {
						j++
					}
				}
				j++
			}
			k := "int"
			if isF {
				k = "float"
			}
			ts = append(ts, tok{k, strings.ReplaceAll(s[i:j], "_", "")})
			i = j
			continue
		}
		if unicode.IsLetter(rune(c)) || c == '_' || c == '$' {
			j := i
			for j < len(s) && (unicode.IsLetter(rune(s[j])) || unicode.IsDigit(rune(s[j])) || s[j] == '_' || s[j] == '$') {
				j++
			}
			ts = append(ts, tok{"id", s[i:j]})
			i = j
			continue
		}
		matched := false
		for _, op := range ops {
			if strings.HasPrefix(s[i:], op) {
				ts = append(ts, tok{"op", op})
				i += len(op)
				matched = true
				break
			}
		}
		if !matched {
			return nil, fmt.Errorf("unexpected character %q", c)
		}
	}
	ts = append(ts, tok{"eof", ""})
	return ts, nil
}

type specParser struct {
	ts []tok
	i  int
}

func parseSpecExpr(s string) (*SExpr, error) {
	ts, err := lexSpec(s)
	if err != nil {
		return nil, err
	}
	p := &specParser{ts: ts}
	x, err := p.expr(0)
	if err != nil {
		return nil, err
	}
	if p.peek().kind != "eof" {
		return nil, fmt.Errorf("unexpected %q", p.peek().text)
	}
	return x, nil
}

func (p *specParser) peek() tok { return p.ts[p.i] }
func (p *specParser) next() tok { t := p.ts[p.i]; p.i++; return t }
func (p *specParser) isOp(s string) bool {
	t := p.peek()
	return t.kind == "op" && t.text == s
}
func (p *specParser) expect(s string) error {
	if !p.isOp(s) {
		return fmt.Errorf("expected %q, got %q", s, p.peek().text)
	}
	p.i++
	return nil
}

var binPrec = map[string]int{
	"<==>": 1, "==>": 2, "||": 4, "&&": 5,
	"==": 6, "!=": 6, "<": 6, "<=": 6, ">": 6, ">=": 6,
	"+": 7, "-": 7, "*": 8, "/": 8, "%": 8,
}

func (p *specParser) expr(minPrec int) (*SExpr, error) {
	lhs, err := p.unary()
	if err != nil {
		return nil, err
	}
	for {
		t := p.peek()
		if t.kind != "op" {
			break
		}
		if t.text == "?" && minPrec <= 3 {
			p.i++
			a, err := p.expr(4)
			if err != nil {
				return nil, err
			}
			if err := p.expect(":"); err != nil {
				return nil, err
			}
			b, err := p.expr(3)
			if err != nil {
				return nil, err
			}
			lhs = &SExpr{Op: "cond", Args: []*SExpr{lhs, a, b}}
			continue
		}
		prec, ok := binPrec[t.text]
		if !ok || prec < minPrec {
			break
		}
		p.i++
		nextMin := prec + 1
		if t.text == "==>" {
			nextMin = prec // right associative
		}
		rhs, err := p.expr(nextMin)
		if err != nil {
			return nil, err
		}
		lhs = &SExpr{Op: "binary", Name: t.text, Args: []*SExpr{lhs, rhs}}
	}
	return lhs, nil
}

func (p *specParser) unary() (*SExpr, error) {
	t := p.peek()
	if t.kind == "op" && (t.text == "!" || t.text == "-") {
		p.i++
		x, err := p.unary()
		if err != nil {
			return nil, err
		}
		return &SExpr{Op: "unary", Name: t.text, Args: []*SExpr{x}}, nil
	}
	if t.kind == "op" && t.text == "*" {
		p.i++
		x, err := p.unary()
		if err != nil {
			return nil, err
		}
		return &SExpr{Op: "deref", Args: []*SExpr{x}}, nil
	}
	return p.postfix()
}

func (p *specParser) postfix() (*SExpr, error) {
	x, err := p.primary()
	if err != nil {
		return nil, err
	}
	for {
		switch {
		case p.isOp("."):
			p.i++
			t := p.next()
			if t.kind != "id" {
				return nil, fmt.Errorf("expected field name after '.'")
			}
			x = &SExpr{Op: "sel", Name: t.text, Args: []*SExpr{x}}
		case p.isOp("["):
			p.i++
			idx, err := p.expr(0)
			if err != nil {
				return nil, err
			}
			if err := p.expect("]"); err != nil {
				return nil, err
			}
			x = &SExpr{Op: "index", Args: []*SExpr{x, idx}}
		default:
			return x, nil
		}
	}
}

func (p *specParser) primary() (*SExpr, error) {
	t := p.next()
	switch t.kind {
	case "int":
		return &SExpr{Op: "int", Name: t.text}, nil
	case "float":
		return &SExpr{Op: "float", Name: t.text}, nil
	case "str":
		return &SExpr{Op: "str", Name: t.text}, nil
	case "id":
		if t.text == "forall" || t.text == "exists" {
			v := p.next()
			if v.kind != "id" {
				return nil, fmt.Errorf("expected variable after %s", t.text)
			}
			// type: identifier possibly prefixed by *, qualified, or instantiated (T[V])
			ty := ""
			for !p.isOp("::") {
				tt := p.next()
				if tt.kind == "eof" {
					return nil, fmt.Errorf("expected :: in quantifier")
				}
				ty += tt.text
			}
			p.i++
			body, err := p.expr(0)
			if err != nil {
				return nil, err
			}
			return &SExpr{Op: t.text, Var: v.text, VarT: ty, Args: []*SExpr{body}}, nil
		}
		if p.isOp("(") {
			p.i++
			var args []*SExpr
			for !p.isOp(")") {
				a, err := p.expr(0)
				if err != nil {
					return nil, err
				}
				args = append(args, a)
				if p.isOp(",") {
					p.i++
				} else if !p.isOp(")") {
					return nil, fmt.Errorf("expected , or ) in call, got %q", p.peek().text)
				}
			}
			p.i++
			return &SExpr{Op: "call", Name: t.text, Args: args}, nil
		}
		return &SExpr{Op: "ident", Name: t.text}, nil
	case "op":
		if t.text == "(" {
			x, err := p.expr(0)
			if err != nil {
				return nil, err
			}
			if err := p.expect(")"); err != nil {
				return nil, err
			}
			return x, nil
		}
	}
	return nil, fmt.Errorf("unexpected token %q", t.text)
}

// replaceIdent replaces whole-identifier occurrences of from by to.
func replaceIdent(s, from, to string) string {
	var b strings.Builder
	i := 0
	isId := func(c byte) bool {
		return c == '_' || (c >= 'a' && c <= 'z') || (c >= 'A' && c <= 'Z') || (c >= '0' && c <= '9')
	}
	for i < len(s) {
		if strings.HasPrefix(s[i:], from) && (i == 0 || !isId(s[i-1])) && (i+len(from) >= len(s) || !isId(s[i+len(from)])) {
			b.WriteString(to)
			i += len(from)
			continue
		}
		b.WriteByte(s[i])
		i++
	}
	return b.String()
}

func sanitizeIdent(s string) string {
	var b strings.Builder
	for _, r := range s {
		if r == '_' || (r >= 'a' && r <= 'z') || (r >= 'A' && r <= 'Z') || (r >= '0' && r <= '9') {
			b.WriteRune(r)
		}
	}
	return b.String()
}
