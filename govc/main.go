package main

import (
	"flag"
	"fmt"
	"os"
	"path/filepath"
	"runtime/pprof"
	"sort"
	"strings"
	"time"
)

func hasProp(props []string, p string) bool {
	for _, x := range props {
		if x == p {
			return true
		}
	}
	return false
}

func contractServes(c *Contract, prop string) bool {
	if (c.Inline && c.Flags["standalone"] == "") || c.Assumed {
		return false // loop annotations for a body that is verified inside its callers only
	}
	// `inline` + `flag standalone`: callers still execute the body; the function is verified against its own
	// pre/postconditions as an entry as well
	if prop == "C16" && c.Flags["noC16"] != "" {
		return false // declared outside the access discipline (the reason is the flag's text; listed in DESIGN.md)
	}
	if prop == "C16" {
		return true // the access discipline (data-race freedom) is checked in every function under contract
	}
	if strings.Contains(" "+c.Flags["serves"]+" ", " "+prop+" ") {
		return true // every obligation of this function also counts for the listed properties
	}
	if hasProp(c.Props, prop) {
		return true
	}
	all := append(append([]*Clause{}, c.Requires...), c.Ensures...)
	for _, l := range c.Loops {
		all = append(all, l.Invariants...)
		all = append(all, l.After...)
	}
	for _, l := range c.Ranges {
		all = append(all, l.Invariants...)
	}
	for _, r := range append(append([]MapStoreRule{}, c.MapStores...), c.OnCalls...) {
		all = append(all, r.Clause)
	}
	for _, cl := range all {
		if hasProp(cl.Props, prop) {
			return true
		}
	}
	return false
}

func main() {
	repo := flag.String("repo", "/repo", "repository under verification")
	verif := flag.String("verif", "/verif", "verification directory")
	prop := flag.String("prop", "", "property id to check (empty: all contracts)")
	funcs := flag.String("func", "", "comma separated functions to verify (overrides -prop selection)")
	tier := flag.String("tier", "quick", "quick|thorough")
	verbose := flag.Bool("v", false, "verbose")
	dump := flag.String("dump", "", "directory to dump failing SMT scripts")
	listFns := flag.Bool("list", false, "list SSA function names")
	noEvidence := flag.Bool("no-evidence", false, "do not write the evidence file")
	replayPath := flag.String("replay", "", "re-run a recorded replay file")
	only := flag.String("only", "", "debug: restrict to obligations whose name contains this substring (never writes evidence)")
	updExp := flag.Bool("update-expected", false, "record the obligations that discharge now in expected_obligations.json")
	updSym := flag.Bool("update-symbols", false, "record the named locals of every function in symbols.json and exit")
	flag.Parse()
	t0 := time.Now()

	if *replayPath != "" {
		os.Exit(runReplayFile(*repo, *verif, *replayPath))
	}

	p, err := loadRepo(*repo)
	if err != nil {
		fmt.Fprintln(os.Stderr, "load:", err)
		os.Exit(2)
	}
	if *listFns {
		for _, n := range p.funcNames() {
			fmt.Println(n)
		}
		return
	}
	e := newEngine(p)
	if *updSym {
		e.saveSymbols(*verif)
		return
	}
	e.preregisterTags()
	cfiles := []string{filepath.Join(*repo, "contracts_verif.go")}
	specs, _ := filepath.Glob(filepath.Join(*verif, "specs", "*.spec"))
	cfiles = append(cfiles, specs...)
	if err := e.loadContracts(cfiles...); err != nil {
		fmt.Fprintln(os.Stderr, "contracts:", err)
		os.Exit(2)
	}
	var names []string
	if *funcs != "" {
		names = strings.Split(*funcs, ",")
	} else {
		for n, c := range e.contracts {
			if strings.HasPrefix(n, "type ") {
				continue
			}
			if *prop == "" || contractServes(c, *prop) {
				names = append(names, n)
			}
		}
	}
	sort.Strings(names)
	if pf := os.Getenv("GOVC_CPUPROFILE"); pf != "" {
		f, _ := os.Create(pf)
		_ = pprof.StartCPUProfile(f)
		defer pprof.StopCPUProfile()
	}
	e.symbols = loadSymbols(*verif)
	tv := time.Now()
	for _, n := range names {
		if err := e.verifyFunction(n); err != nil {
			e.unsupported[n] = append(e.unsupported[n], err.Error())
		}
	}
	if os.Getenv("GOVC_TIMING") != "" {
		fmt.Fprintf(os.Stderr, "load %.1fs symbolic execution %.1fs paths=%d obligations=%d\n", tv.Sub(t0).Seconds(), time.Since(tv).Seconds(), e.paths, len(e.obligations))
	}
	want := func(ob *Obligation) bool {
		if *only != "" && !strings.Contains(ob.Name, *only) {
			return false
		}
		if *prop == "" {
			return true
		}
		if *prop == "C08" && (ob.Kind == "post" || ob.Kind == "frame") {
			// per-key linearizability = one atomic section per single-key operation (atomic:one-section) AND, inside
			// it, the sequential specification of that operation: its postconditions count for C08 too
			if c := e.contracts[ob.Fn]; c != nil && c.Flags["onesection"] != "" {
				return true
			}
		}
		if c := e.contracts[ob.Fn]; c != nil && strings.Contains(" "+c.Flags["serves"]+" ", " "+*prop+" ") {
			return true
		}
		return hasProp(ob.Props, *prop)
	}
	if *only != "" {
		*noEvidence = true
	}
	quick, slow := 10000, 20000
	if *tier == "thorough" {
		quick, slow = 30000, 60000
	}
	e.solveAll(want, quick, slow, 16, *dump)
	rep := e.buildReport(*prop, *tier, names, want, time.Since(t0).Seconds())
	rep.updateExpected = *updExp
	if *updExp {
		e.saveSymbols(*verif)
	}
	rep.print(*verbose)
	pprof.StopCPUProfile()
	code := 0
	if *prop != "" {
		code = rep.finish(*repo, *verif, *prop, *tier, !*noEvidence)
	} else if rep.Failed+rep.Unknown+rep.Uncovered+len(rep.Unsupported) > 0 {
		code = 1
	}
	os.Exit(code)
}
