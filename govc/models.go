package main

import (
	"fmt"
	"go/constant"
	"go/token"
	"go/types"
	"strings"

	"golang.org/x/tools/go/ssa"
)

// modelFn models an external function. It returns the result (nil = none) and whether the path continues.
type modelFn func(st *State, fr *Frame, fn *ssa.Function, args []Val, pos token.Pos) (*Val, bool)

type ifaceModelFn func(st *State, fr *Frame, call *ssa.CallCommon, recv Val, args []Val, pos token.Pos) (*Val, bool)

var models = map[string]modelFn{}
var ifaceModels = map[string]ifaceModelFn{}
var callOutExtraWrites map[string][]string
var callOutHooks map[string]func(st *State, fr *Frame, args []Val, res []Val, pos token.Pos)

const (
	maxI64 = "9223372036854775807"
	minI64 = "(- 9223372036854775808)"
)

func rv(v Val) (*Val, bool) { return &v, true }

func init() {
	baseModels := map[string]modelFn{
		"time.Now": func(st *State, fr *Frame, fn *ssa.Function, a []Val, pos token.Pos) (*Val, bool) {
			return rv(Val{C: []string{st.clockRead()}})
		},
		"time.Since": func(st *State, fr *Frame, fn *ssa.Function, a []Val, pos token.Pos) (*Val, bool) {
			n := st.clockRead()
			return rv(Val{C: []string{satSub(n, a[0].C[0])}})
		},
		"(time.Time).Sub": func(st *State, fr *Frame, fn *ssa.Function, a []Val, pos token.Pos) (*Val, bool) {
			return rv(Val{C: []string{satSub(a[0].C[0], a[1].C[0])}})
		},
		"(time.Time).UnixNano": func(st *State, fr *Frame, fn *ssa.Function, a []Val, pos token.Pos) (*Val, bool) {
			return rv(Val{C: []string{wrapTerm(tInt64, a[0].C[0])}})
		},
		"(time.Time).Add": func(st *State, fr *Frame, fn *ssa.Function, a []Val, pos token.Pos) (*Val, bool) {
			return rv(Val{C: []string{fmt.Sprintf("(+ %s %s)", a[0].C[0], a[1].C[0])}})
		},
		"time.Unix": func(st *State, fr *Frame, fn *ssa.Function, a []Val, pos token.Pos) (*Val, bool) {
			return rv(Val{C: []string{fmt.Sprintf("(+ (* %s 1000000000) %s)", a[0].C[0], a[1].C[0])}})
		},
		"(time.Time).String":     freshStringModel,
		"(time.Duration).String": freshStringModel,
		"fmt.Sprintf":            freshStringModel,
		"strconv.FormatUint": func(st *State, fr *Frame, fn *ssa.Function, a []Val, pos token.Pos) (*Val, bool) {
			st.e.assumeUsed("strconv.FormatUint is an injective function of its numeric argument (base fixed)")
			return rv(Val{C: []string{fmt.Sprintf("(fmtuint %s %s)", a[0].C[0], a[1].C[0])}})
		},
		"(time.Duration).Seconds": func(st *State, fr *Frame, fn *ssa.Function, a []Val, pos token.Pos) (*Val, bool) {
			return rv(Val{C: []string{st.roundFloat(fmt.Sprintf("(/ (to_real %s) 1000000000.0)", a[0].C[0]))}})
		},
		"time.After": func(st *State, fr *Frame, fn *ssa.Function, a []Val, pos token.Pos) (*Val, bool) {
			r := st.newRef("timer")
			return rv(Val{C: []string{r}})
		},
		"math/rand.Float64": func(st *State, fr *Frame, fn *ssa.Function, a []Val, pos token.Pos) (*Val, bool) {
			r := st.fresh("rand", SReal)
			st.assume(fmt.Sprintf("(and (<= 0.0 %s) (< %s 1.0))", r, r))
			st.e.assumeUsed("math/rand.Float64 returns any value in [0,1)")
			n := st.arr("G|cnt|rand", "Int")
			a2 := st.arr("G|rand", "(Array Int Real)")
			st.setArr("G|rand", "(Array Int Real)", store(a2, n, r))
			st.setArr("G|cnt|rand", "Int", fmt.Sprintf("(+ %s 1)", n))
			st.written["G|rand"] = true
			return rv(Val{C: []string{r}})
		},
		"(*sync.Mutex).Lock": func(st *State, fr *Frame, fn *ssa.Function, a []Val, pos token.Pos) (*Val, bool) {
			return nil, st.lockOp(fr, a[0], "W", true, pos)
		},
		"(*sync.Mutex).Unlock": func(st *State, fr *Frame, fn *ssa.Function, a []Val, pos token.Pos) (*Val, bool) {
			return nil, st.lockOp(fr, a[0], "W", false, pos)
		},
		"(*sync.RWMutex).Lock": func(st *State, fr *Frame, fn *ssa.Function, a []Val, pos token.Pos) (*Val, bool) {
			return nil, st.lockOp(fr, a[0], "W", true, pos)
		},
		"(*sync.RWMutex).Unlock": func(st *State, fr *Frame, fn *ssa.Function, a []Val, pos token.Pos) (*Val, bool) {
			return nil, st.lockOp(fr, a[0], "W", false, pos)
		},
		"(*sync.RWMutex).RLock": func(st *State, fr *Frame, fn *ssa.Function, a []Val, pos token.Pos) (*Val, bool) {
			return nil, st.lockOp(fr, a[0], "R", true, pos)
		},
		"(*sync.RWMutex).RUnlock": func(st *State, fr *Frame, fn *ssa.Function, a []Val, pos token.Pos) (*Val, bool) {
			return nil, st.lockOp(fr, a[0], "R", false, pos)
		},
		"sync/atomic.AddInt64": func(st *State, fr *Frame, fn *ssa.Function, a []Val, pos token.Pos) (*Val, bool) {
			p := st.asPtr(a[0])
			st.guardAtomic(fr, p, true, pos)
			old := st.loadPtr(p, pos)
			nv := Val{T: old.T, C: []string{wrapTerm(tInt64, fmt.Sprintf("(+ %s %s)", old.C[0], a[1].C[0]))}}
			st.storePtr(p, nv, pos)
			return rv(Val{C: nv.C})
		},
		"sync/atomic.LoadInt64": func(st *State, fr *Frame, fn *ssa.Function, a []Val, pos token.Pos) (*Val, bool) {
			p := st.asPtr(a[0])
			st.guardAtomic(fr, p, false, pos)
			return rv(Val{C: st.loadPtr(p, pos).C})
		},
		"sync/atomic.StoreInt64": func(st *State, fr *Frame, fn *ssa.Function, a []Val, pos token.Pos) (*Val, bool) {
			p := st.asPtr(a[0])
			st.guardAtomic(fr, p, true, pos)
			st.storePtr(p, Val{T: p.T, C: a[1].C}, pos)
			return nil, true
		},
		"context.WithValue": func(st *State, fr *Frame, fn *ssa.Function, a []Val, pos token.Pos) (*Val, bool) {
			return rv(st.ctxWithValue(a[0], a[1], a[2], pos))
		},
		"context.Background": func(st *State, fr *Frame, fn *ssa.Function, a []Val, pos token.Pos) (*Val, bool) {
			return rv(st.ctxBackground())
		},
		"errors.Is": func(st *State, fr *Frame, fn *ssa.Function, a []Val, pos token.Pos) (*Val, bool) {
			return rv(Val{C: []string{st.errIsTerm(a[0], a[1])}})
		},
		"errors.As":  modelErrorsAs,
		"fmt.Errorf": modelErrorf,
		"github.com/cespare/xxhash/v2.Sum64": func(st *State, fr *Frame, fn *ssa.Function, a []Val, pos token.Pos) (*Val, bool) {
			st.e.assumeUsed("xxhash.Sum64 is a deterministic side-effect-free function of the key bytes (collisions possible)")
			st.checkBorrowRead(fr, a[0], pos)
			h := fmt.Sprintf("(xxh %s)", st.bytesOf(a[0]))
			return rv(Val{C: []string{h}})
		},
		"bytes.Equal": func(st *State, fr *Frame, fn *ssa.Function, a []Val, pos token.Pos) (*Val, bool) {
			st.checkBorrowRead(fr, a[0], pos)
			st.checkBorrowRead(fr, a[1], pos)
			return rv(Val{C: []string{eq(st.bytesOf(a[0]), st.bytesOf(a[1]))}})
		},
		"runtime.SetFinalizer":       noopModel,
		"runtime/debug.FreeOSMemory": noopModel,
		"runtime.ReadMemStats": func(st *State, fr *Frame, fn *ssa.Function, a []Val, pos token.Pos) (*Val, bool) {
			st.havoc("H|runtime.MemStats|*")
			st.e.assumeUsed("runtime.ReadMemStats yields arbitrary statistics and has no effect on cache state")
			return nil, true
		},
		"reflect.DeepEqual": func(st *State, fr *Frame, fn *ssa.Function, a []Val, pos token.Pos) (*Val, bool) {
			r := st.fresh("deepeq", SBool)
			return rv(Val{C: []string{r}})
		},
		"sort.Slice": modelSortSlice,
	}
	for k, v := range baseModels {
		models[k] = v
	}
	for k, v := range map[string]ifaceModelFn{
		"context.Context.Value": func(st *State, fr *Frame, call *ssa.CallCommon, recv Val, args []Val, pos token.Pos) (*Val, bool) {
			tag, val := st.ctxValue(recv, args[0])
			return rv(Val{C: []string{tag, val}})
		},
		"error.Error": func(st *State, fr *Frame, call *ssa.CallCommon, recv Val, args []Val, pos token.Pos) (*Val, bool) {
			return rv(Val{C: []string{fmt.Sprintf("(errstr %s %s)", recv.C[0], recv.C[1])}})
		},
		"ErrWithExpiredItem.Value": func(st *State, fr *Frame, call *ssa.CallCommon, recv Val, args []Val, pos token.Pos) (*Val, bool) {
			st.assumeExpiryModel()
			return rv(st.expValOf(nil, recv.C[0], recv.C[1], false))
		},
		"ErrWithExpiredItem.ExpiredAt": func(st *State, fr *Frame, call *ssa.CallCommon, recv Val, args []Val, pos token.Pos) (*Val, bool) {
			st.assumeExpiryModel()
			return rv(Val{C: []string{st.expAtOf(nil, recv.C[0], recv.C[1])}})
		},
		"ErrWithExpiredItemOf.Value": func(st *State, fr *Frame, call *ssa.CallCommon, recv Val, args []Val, pos token.Pos) (*Val, bool) {
			st.assumeExpiryModel()
			return rv(st.expValOf(nil, recv.C[0], recv.C[1], true))
		},
		"ErrWithExpiredItemOf.ExpiredAt": func(st *State, fr *Frame, call *ssa.CallCommon, recv Val, args []Val, pos token.Pos) (*Val, bool) {
			st.assumeExpiryModel()
			return rv(Val{C: []string{st.expAtOf(nil, recv.C[0], recv.C[1])}})
		},
	} {
		ifaceModels[k] = v
	}
	callOutExtraWrites = map[string][]string{"Deleter.Delete": {"G|delok"}}
	callOutHooks = map[string]func(st *State, fr *Frame, args []Val, res []Val, pos token.Pos){
		"Deleter.Delete": func(st *State, fr *Frame, args []Val, res []Val, pos token.Pos) {
			// ghost: number of Delete call-outs that reported success
			st.e.ghostInit["G|delok"] = "(and (>= $ 0) (< $ 4611686018427387904))"
			n := st.arr("G|delok", "Int")
			st.setArr("G|delok", "Int", fmt.Sprintf("(+ %s %s)", n, ite(eq(res[0].C[0], "0"), "1", "0")))
		},
		"StatsTracker.Add": func(st *State, fr *Frame, args []Val, res []Val, pos token.Pos) {
			// args: recv, ctx, name, increment, labels
			name, inc := args[2].C[0], args[3].C[0]
			m := st.arr("G|metric", "(Array Int Real)")
			st.setArr("G|metric", "(Array Int Real)", store(m, name, fmt.Sprintf("(+ %s %s)", sel(m, name), inc)))
		},
	}
}

func (st *State) assumeExpiryModel() {
	st.e.assumeUsed("an ErrWithExpiredItem's Value()/ExpiredAt() are deterministic functions of the error value")
}

func noopModel(st *State, fr *Frame, fn *ssa.Function, a []Val, pos token.Pos) (*Val, bool) {
	return nil, true
}

func freshStringModel(st *State, fr *Frame, fn *ssa.Function, a []Val, pos token.Pos) (*Val, bool) {
	r := st.fresh("str", SStr)
	st.assume(fmt.Sprintf("(>= (strlen %s) 0)", r))
	return rv(Val{C: []string{r}})
}

// satSub is Go's saturating time subtraction (time.Time.Sub / time.Since).
func satSub(a, b string) string {
	d := fmt.Sprintf("(- %s %s)", a, b)
	return fmt.Sprintf("(ite (> %s %s) %s (ite (< %s %s) %s %s))", d, maxI64, maxI64, d, minI64, minI64, d)
}

// clockRead models time.Now(): a ghost non-decreasing clock within +-2^62 ns of the epoch.
func (st *State) clockRead() string {
	e := st.e
	e.ghostInit["G|clock"] = "(and (>= $ 0) (< $ 4611686018427387904))"
	e.ghostInit["G|nclk"] = "(>= $ 0)"
	last := st.arr("G|clock", "Int")
	t := st.fresh("now", SInt)
	st.assume(fmt.Sprintf("(and (>= %s %s) (< %s 4611686018427387904))", t, last, t))
	st.setArr("G|clock", "Int", t)
	n := st.arr("G|nclk", "Int")
	c := st.arr("G|clk", "(Array Int Int)")
	st.setArr("G|clk", "(Array Int Int)", store(c, n, t))
	st.setArr("G|nclk", "Int", fmt.Sprintf("(+ %s 1)", n))
	st.written["G|clock"] = true
	e.assumeUsed("time.Now is a non-decreasing ghost clock with 0 <= now < 2^62 ns (years 1970..2116); time.Time modelled as integer ns")
	return t
}

// ---- context ----

func (st *State) durationType() types.Type {
	return st.e.P.Prog.ImportedPackage("time").Type("Duration").Type()
}

func (st *State) ctxKey(name string) Val {
	e := st.e
	obj := e.P.TPkg.Scope().Lookup(name)
	if obj == nil {
		e.unsupportedf("context key type %s not found", name)
	}
	anyT := types.NewInterfaceType(nil, nil)
	return Val{T: anyT, C: []string{e.typeTag(obj.Type()), "0"}}
}

func isConcreteNum(s string) bool {
	if s == "" {
		return false
	}
	for _, r := range s {
		if r < '0' || r > '9' {
			return false
		}
	}
	return true
}

// ctxValue returns (tag, val) of ctx.Value(key).
func (st *State) ctxValue(ctx Val, key Val) (string, string) {
	e := st.e
	if rec, ok := st.ctxs[ctx.C[1]]; ok && isConcreteNum(ctx.C[0]) {
		if rec.key.C[0] == key.C[0] && rec.key.C[1] == key.C[1] {
			return rec.val.C[0], rec.val.C[1]
		}
		if isConcreteNum(rec.key.C[0]) && isConcreteNum(key.C[0]) && rec.key.C[0] != key.C[0] {
			return st.ctxValue(rec.parent, key)
		}
		pt, pv := st.ctxValue(rec.parent, key)
		same := and(eq(rec.key.C[0], key.C[0]), eq(rec.key.C[1], key.C[1]))
		return ite(same, rec.val.C[0], pt), ite(same, rec.val.C[1], pv)
	}
	if ctx.C[0] == e.typeTag(e.bgCtxType()) {
		return "0", "0"
	}
	tag := fmt.Sprintf("(ctxval_tag %s %s %s %s)", ctx.C[0], ctx.C[1], key.C[0], key.C[1])
	val := fmt.Sprintf("(ctxval_val %s %s %s %s)", ctx.C[0], ctx.C[1], key.C[0], key.C[1])
	if !strings.Contains(tag, "$") {
		st.assumeDerived(ctx.C[1], val)
		// invariants of the package-private context keys (only this package can store under them)
		dt := e.typeTag(types.NewPointer(st.durationType()))
		if key.C[0] == e.typeTag(e.P.TPkg.Scope().Lookup("ttlCtxKey").Type()) {
			st.assume(fmt.Sprintf("(and (or (= %s 0) (= %s %s)) (=> (= %s %s) (> %s 1000)) (=> (= %s 0) (= %s 0)))", tag, tag, dt, tag, dt, val, tag, val))
			e.assumeUsed("values stored under the package-private context key ttlCtxKey{} are non-nil *time.Duration (only WithTTL stores there)")
		}
		if key.C[0] == e.typeTag(e.P.TPkg.Scope().Lookup("skipReadCtxKey").Type()) {
			bt := e.typeTag(tBool)
			st.assume(fmt.Sprintf("(and (or (= %s 0) (= %s %s)) (=> (= %s 0) (= %s 0)))", tag, tag, bt, tag, val))
			e.assumeUsed("values stored under the package-private context key skipReadCtxKey{} are bool")
		}
	}
	return tag, val
}

func (e *Engine) bgCtxType() types.Type {
	if e.bgT == nil {
		// a synthetic named type standing for context.Background()'s dynamic type
		ctxPkg := e.P.Prog.ImportedPackage("context")
		if m, ok := ctxPkg.Members["backgroundCtx"]; ok {
			e.bgT = m.Type()
		} else {
			e.bgT = types.NewNamed(types.NewTypeName(token.NoPos, ctxPkg.Pkg, "backgroundCtx", nil), types.NewStruct(nil, nil), nil)
		}
	}
	return e.bgT
}

func (st *State) ctxBackground() Val {
	e := st.e
	ct := e.P.Prog.ImportedPackage("context").Type("Context").Type()
	e.assumeUsed("context.Background().Value(k) == nil for every key")
	return Val{T: ct, C: []string{e.typeTag(e.bgCtxType()), "0"}}
}

func (st *State) ctxWithValue(parent, key, val Val, pos token.Pos) Val {
	e := st.e
	ct := e.P.Prog.ImportedPackage("context").Type("Context").Type()
	// context.WithValue panics on nil parent / nil key
	st.oblige("safety", "nil:context.WithValue", e.curProps, and(not(eq(parent.C[0], "0")), not(eq(key.C[0], "0"))), pos)
	r := st.newRef("ctx")
	tag := e.typeTag(e.valueCtxType())
	c := Val{T: ct, C: []string{tag, r}}
	st.ctxs[r] = ctxRec{parent: parent, key: key, val: val}
	// facts for code paths that lose the Go-side record (phi, heap): lookup of the stored key and delegation
	st.assume(and(eq(fmt.Sprintf("(ctxval_tag %s %s %s %s)", tag, r, key.C[0], key.C[1]), val.C[0]),
		eq(fmt.Sprintf("(ctxval_val %s %s %s %s)", tag, r, key.C[0], key.C[1]), val.C[1])))
	pt := fmt.Sprintf("(ctxval_tag %s %s kt kv)", parent.C[0], parent.C[1])
	pv := fmt.Sprintf("(ctxval_val %s %s kt kv)", parent.C[0], parent.C[1])
	if rec, ok := st.ctxs[parent.C[1]]; ok && !isConcreteNum("x") {
		_ = rec
	}
	if parent.C[0] == e.typeTag(e.bgCtxType()) {
		pt, pv = "0", "0"
	}
	st.assume(fmt.Sprintf("(forall ((kt Int) (kv Int)) (! (=> (not (and (= kt %s) (= kv %s))) (and (= (ctxval_tag %s %s kt kv) %s) (= (ctxval_val %s %s kt kv) %s))) :pattern ((ctxval_tag %s %s kt kv)) :pattern ((ctxval_val %s %s kt kv))))",
		key.C[0], key.C[1], tag, r, pt, tag, r, pv, tag, r, tag, r))
	e.assumeUsed("context.WithValue(p,k,v).Value(k)==v and other keys delegate to p")
	return c
}

func (e *Engine) valueCtxType() types.Type {
	if e.vcT == nil {
		ctxPkg := e.P.Prog.ImportedPackage("context")
		if m, ok := ctxPkg.Members["valueCtx"]; ok {
			e.vcT = types.NewPointer(m.Type())
		} else {
			e.vcT = types.NewNamed(types.NewTypeName(token.NoPos, ctxPkg.Pkg, "valueCtx", nil), types.NewStruct(nil, nil), nil)
		}
	}
	return e.vcT
}

// ---- errors ----

func (e *Engine) sentinelTag() string {
	return e.typeTag(e.P.TPkg.Scope().Lookup("SentinelError").Type())
}

func (e *Engine) namedTag(name string) string {
	obj := e.P.TPkg.Scope().Lookup(name)
	if obj == nil {
		return "-1"
	}
	return e.typeTag(obj.Type())
}

func (e *Engine) wrapErrTag() string {
	if e.weT == nil {
		fp := e.P.Prog.ImportedPackage("fmt")
		if m, ok := fp.Members["wrapError"]; ok {
			e.weT = types.NewPointer(m.Type())
		} else {
			e.weT = types.NewNamed(types.NewTypeName(token.NoPos, fp.Pkg, "wrapError", nil), types.NewStruct(nil, nil), nil)
		}
	}
	return e.typeTag(e.weT)
}

func (st *State) sentinel(name string) Val {
	e := st.e
	c := e.P.TPkg.Scope().Lookup(name).(*types.Const)
	errT := types.Universe.Lookup("error").Type()
	return Val{T: errT, C: []string{e.sentinelTag(), e.strLit(constant.StringVal(c.Val()))}}
}

// errIsTerm models errors.Is(a, b) for error interface values.
func (st *State) errIsTerm(a, b Val) string {
	if len(b.C) == 1 {
		b = st.makeInterface(b, a.T)
	}
	at, av, bt, bv := a.C[0], a.C[1], b.C[0], b.C[1]
	if at == "0" {
		return eq(bt, "0")
	}
	e := st.e
	e.assumeUsed("errors.Is/As follow the unwrap chain; SentinelError has no Is/Unwrap; errExpired.Is(t) == errors.Is(t, ErrExpired)")
	same := and(eq(at, bt), eq(av, bv))
	exp := st.sentinel("ErrExpired")
	expCase := or(same, and(eq(bt, exp.C[0]), eq(bv, exp.C[1])))
	if at == e.sentinelTag() {
		return same
	}
	if at == e.namedTag("errExpired") || at == e.expiredOfTag() {
		return expCase
	}
	if isConcreteNum(at) {
		return fmt.Sprintf("(errIs %s %s %s %s)", at, av, bt, bv)
	}
	// symbolic dynamic type: case split on the types whose Is behaviour is known
	return ite(eq(at, e.sentinelTag()), same,
		ite(or(eq(at, e.namedTag("errExpired")), eq(at, e.expiredOfTag())), expCase,
			fmt.Sprintf("(errIs %s %s %s %s)", at, av, bt, bv)))
}

func (e *Engine) expiredOfTag() string {
	obj := e.P.TPkg.Scope().Lookup("errExpiredOf")
	if obj == nil {
		return "-1"
	}
	// the generic bodies mention it as errExpiredOf[V]; one tag stands for every instantiation
	return e.tagByName("errExpiredOf[V]", obj.Type())
}

// asExpiredOK: errors.As(err, &ErrWithExpiredItem[Of]) succeeds.
func (st *State) asExpiredOK(err Val) string {
	e := st.e
	t := err.C[0]
	if t == "0" {
		return "false"
	}
	if t == e.namedTag("errExpired") || t == e.expiredOfTag() {
		return "true"
	}
	if t == e.sentinelTag() {
		return "false"
	}
	if isConcreteNum(t) {
		return fmt.Sprintf("(asExp %s %s)", err.C[0], err.C[1])
	}
	return ite(or(eq(t, e.namedTag("errExpired")), eq(t, e.expiredOfTag())), "true", fmt.Sprintf("(asExp %s %s)", err.C[0], err.C[1]))
}

func modelErrorsAs(st *State, fr *Frame, fn *ssa.Function, a []Val, pos token.Pos) (*Val, bool) {
	e := st.e
	err, target := a[0], a[1]
	// target is an interface holding a pointer to the destination variable
	var id int
	fmt.Sscanf(target.C[0], "%d", &id)
	tt, ok := e.tagTypes[id]
	if !ok {
		e.unsupportedf("errors.As with unknown target type")
	}
	dst := tt.(*types.Pointer).Elem()
	name := e.P.relType(dst)
	p := &Ptr{Kind: PObj, Root: target.C[1], RootT: dst, T: dst}
	if strings.HasPrefix(name, "ErrWithExpiredItem") {
		okT := st.asExpiredOK(err)
		tt2, tv2 := st.asTarget(err.C[0], err.C[1])
		tv := Val{T: dst, C: []string{tt2, tv2}}
		st.assume(implies(okT, not(eq(tv.C[0], "0"))))
		old := st.loadPtrQuiet(p)
		nv := Val{T: dst}
		for i := range tv.C {
			nv.C = append(nv.C, ite(okT, tv.C[i], old.C[i]))
		}
		st.storePtr(p, nv, pos)
		return rv(Val{C: []string{okT}})
	}
	e.unsupportedf("errors.As target %s", name)
	return nil, true
}

func modelErrorf(st *State, fr *Frame, fn *ssa.Function, a []Val, pos token.Pos) (*Val, bool) {
	e := st.e
	errT := types.Universe.Lookup("error").Type()
	// find %w position in a constant format
	wIdx := -1
	if lit, ok := e.litOf(a[0].C[0]); ok {
		verb := 0
		for i := 0; i+1 < len(lit); i++ {
			if lit[i] == '%' {
				if lit[i+1] == '%' {
					i++
					continue
				}
				if lit[i+1] == 'w' {
					wIdx = verb
					break
				}
				verb++
			}
		}
	} else {
		e.unsupportedf("fmt.Errorf with non-constant format")
	}
	r := st.newRef("err")
	if wIdx < 0 {
		tag := e.typeTag(e.errorStringType())
		return rv(Val{T: errT, C: []string{tag, r}})
	}
	tag := e.wrapErrTag()
	inner := st.loadPtrQuiet(st.sliceElemPtr(a[1], fmt.Sprint(wIdx)))
	// errors.Is(w, t) == (w == t) || errors.Is(inner, t); errors.As likewise delegates
	var innerIs string
	if inner.C[0] == e.sentinelTag() {
		innerIs = fmt.Sprintf("(and (= tt %s) (= tv %s))", inner.C[0], inner.C[1])
	} else {
		innerIs = fmt.Sprintf("(errIs %s %s tt tv)", inner.C[0], inner.C[1])
	}
	st.assume(fmt.Sprintf("(forall ((tt Int) (tv Int)) (! (= (errIs %s %s tt tv) (or (and (= tt %s) (= tv %s)) %s)) :pattern ((errIs %s %s tt tv))))",
		tag, r, tag, r, innerIs, tag, r))
	st.assume(eq(fmt.Sprintf("(asExp %s %s)", tag, r), st.asExpiredOK(inner)))
	// a wrapped error is still an error "produced by" whoever produced the wrapped one (C02 provenance)
	st.assume(fmt.Sprintf("(forall ((k Int)) (! (=> (errprov k %s %s) (errprov k %s %s)) :pattern ((errprov k %s %s))))", inner.C[0], inner.C[1], tag, r, tag, r))
	e.assumeUsed("fmt.Errorf with %w wraps its operand: errors.Is/As delegate to it")
	return rv(Val{T: errT, C: []string{tag, r}})
}

func (e *Engine) errorStringType() types.Type {
	if e.esT == nil {
		fp := e.P.Prog.ImportedPackage("errors")
		if m, ok := fp.Members["errorString"]; ok {
			e.esT = types.NewPointer(m.Type())
		} else {
			e.esT = types.NewNamed(types.NewTypeName(token.NoPos, fp.Pkg, "errorString", nil), types.NewStruct(nil, nil), nil)
		}
	}
	return e.esT
}

func (e *Engine) litOf(code string) (string, bool) {
	for s, id := range e.strLits {
		if fmt.Sprint(id) == code {
			return s, true
		}
	}
	if code == "0" {
		return "", true
	}
	return "", false
}

// asTarget is the value errors.As(err, &ErrWithExpiredItem[Of]) stores into its target on success: err itself when
// err is one of the package's expiry errors, otherwise some error from err's unwrap chain (uninterpreted).
func (st *State) asTarget(tag, val string) (string, string) {
	e := st.e
	isOurs := or(eq(tag, e.namedTag("errExpired")), eq(tag, e.expiredOfTag()))
	if tag == e.namedTag("errExpired") || tag == e.expiredOfTag() {
		return tag, val
	}
	if isConcreteNum(tag) {
		return fmt.Sprintf("(asExp_tag %s %s)", tag, val), fmt.Sprintf("(asExp_val %s %s)", tag, val)
	}
	return ite(isOurs, tag, fmt.Sprintf("(asExp_tag %s %s)", tag, val)), ite(isOurs, val, fmt.Sprintf("(asExp_val %s %s)", tag, val))
}

// expAtOf: ts(x.ExpiredAt()) of an expiry-error value x = (tag, val). For the package's own errExpired with a
// statically known dynamic type it is the entry's E field; for an error of unknown dynamic type (a backend behind
// the ReadWriter interface) it is an uninterpreted, deterministic function of the error value.
func (st *State) expAtOf(sn *Snapshot, tag, val string) string {
	e := st.e
	if tag == e.expiredOfTag() {
		if t := e.typeByString("TraitEntryOf[V]"); t != nil {
			return sel(st.arrIn(sn, heapName(e, t, ".E"), arrSort(SInt)), val)
		}
	}
	if tag == e.namedTag("errExpired") {
		ent := e.P.TPkg.Scope().Lookup("TraitEntry").Type()
		return sel(st.arrIn(sn, heapName(e, ent, ".E"), arrSort(SInt)), val)
	}
	return fmt.Sprintf("(expat %s %s)", tag, val)
}

// expValOf: x.Value() of an expiry-error value (see expAtOf).
func (st *State) expValOf(sn *Snapshot, tag, val string, generic bool) Val {
	e := st.e
	anyT := types.NewInterfaceType(nil, nil)
	if generic {
		if tag == e.expiredOfTag() {
			if t := e.typeByString("TraitEntryOf[V]"); t != nil {
				return Val{T: anyT, C: []string{sel(st.arrIn(sn, heapName(e, t, ".V"), arrSort(SInt)), val)}}
			}
		}
		return Val{T: anyT, C: []string{fmt.Sprintf("(expval_val %s %s)", tag, val)}}
	}
	if tag == e.namedTag("errExpired") {
		ent := e.P.TPkg.Scope().Lookup("TraitEntry").Type()
		at := st.arrIn(sn, heapName(e, ent, ".V.tag"), arrSort(SInt))
		av := st.arrIn(sn, heapName(e, ent, ".V.val"), arrSort(SInt))
		e.refArr[heapName(e, ent, ".V.val")] = true
		return Val{T: anyT, C: []string{sel(at, val), sel(av, val)}}
	}
	return Val{T: anyT, C: []string{fmt.Sprintf("(expval_tag %s %s)", tag, val), fmt.Sprintf("(expval_val %s %s)", tag, val)}}
}

// expiredValue / expiredAt for spec evaluation: Value() / ts(ExpiredAt()) of what errors.As extracts from err.
func (sc *SpecCtx) expiredValue(err Val) Val {
	tt, tv := sc.st.asTarget(err.C[0], err.C[1])
	generic := sc.st.e.typeByString("TraitEntryOf[V]") != nil && strings.Contains(sc.st.e.curFn, "Of[V]")
	v := sc.st.expValOf(sc.cur, tt, tv, generic)
	if generic {
		if t := sc.st.e.typeByString("V"); t != nil {
			v.T = t
		}
	}
	return v
}

func (sc *SpecCtx) expiredAt(err Val) Val {
	tt, tv := sc.st.asTarget(err.C[0], err.C[1])
	return Val{T: tInt64, C: []string{sc.st.expAtOf(sc.cur, tt, tv)}}
}
