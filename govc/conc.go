package main

import (
	"go/token"

	"golang.org/x/tools/go/ssa"
)

// Concurrency rules (thread-modular). See DESIGN.md section 2.5.

// lockID names a mutex by the pointer descriptor of the mutex object.
func lockID(st *State, v Val) string {
	p := st.asPtr(v)
	return st.e.P.relType(p.RootT) + p.Path + "@" + p.Root
}

// lockOp models Lock/RLock/Unlock/RUnlock on the lockset of the current thread.
func (st *State) lockOp(fr *Frame, m Val, mode string, acquire bool, pos token.Pos) bool {
	e := st.e
	id := lockID(st, m)
	if acquire {
		if _, held := st.locks[id]; held {
			// re-acquiring a non-reentrant mutex deadlocks
			st.oblige("lock", "self-deadlock", e.curProps, "false", pos)
			return false
		}
		st.locks[id] = mode
		st.onLockAcquired(fr, m, id, mode, pos)
		return true
	}
	held, ok := st.locks[id]
	if !ok || held != mode {
		st.oblige("lock", "unlock-not-held", e.curProps, "false", pos)
		return false
	}
	st.onLockReleasing(fr, m, id, mode, pos)
	delete(st.locks, id)
	return true
}

func (st *State) onLockAcquired(fr *Frame, m Val, id, mode string, pos token.Pos)  {}
func (st *State) onLockReleasing(fr *Frame, m Val, id, mode string, pos token.Pos) {}

func (st *State) guardAccess(fr *Frame, p *Ptr, write bool, pos token.Pos)   {}
func (st *State) guardAtomic(fr *Frame, p *Ptr, write bool, pos token.Pos)   {}
func (st *State) guardMapAccess(fr *Frame, m Val, write bool, pos token.Pos) {}
func (st *State) checkCallOutAllowed(fr *Frame, kind string, pos token.Pos)  {}
func (st *State) onGo(fr *Frame, x *ssa.Go, fv Val)                          {}
func (st *State) onChanRecv(fr *Frame, ch Val, pos token.Pos)                {}
func (st *State) onChanClose(fr *Frame, ch Val, pos token.Pos)               {}
func (st *State) checkBorrowWrite(fr *Frame, s Val, pos token.Pos)           {}
func (st *State) checkBorrowRead(fr *Frame, s Val, pos token.Pos)            {}
func (st *State) onFunctionEntry(fr *Frame)                                  {}
func (st *State) onFunctionExit(fr *Frame, pos token.Pos) {
	// every lock acquired by the function is released on return
	for id := range st.locks {
		st.oblige("lock", "held-at-return:"+id[:indexAt(id)], st.e.curProps, "false", pos)
	}
}
func (st *State) onModularCall(fr *Frame, fn *ssa.Function, c *Contract, args []Val, pos token.Pos) {}

func indexAt(s string) int {
	for i := 0; i < len(s); i++ {
		if s[i] == '@' {
			return i
		}
	}
	return len(s)
}
