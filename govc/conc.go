package main

import (
	"fmt"
	"go/token"
	"go/types"
	"strings"

	"golang.org/x/tools/go/ssa"
)

// Concurrency rules (thread-modular). See DESIGN.md section 2.5.

// lockID names a mutex by the pointer descriptor of the mutex object.
func lockID(st *State, v Val) string {
	p := st.asPtr(v)
	return st.e.P.relType(p.RootT) + p.Path + "@" + p.Root
}

// lockOp models Lock/RLock/Unlock/RUnlock on the lockset of the current thread.
func (st *State) lockOp(fr *Frame, m Val, mode string, acquire bool, pos token.Pos) bool {
	e := st.e
	id := lockID(st, m)
	if acquire {
		if _, held := st.locks[id]; held {
			// re-acquiring a non-reentrant mutex deadlocks
			st.oblige("lock", "self-deadlock", e.curProps, "false", pos)
			return false
		}
		st.locks[id] = mode
		st.lockCount[id]++
		st.onLockAcquired(fr, m, id, mode, pos)
		return true
	}
	held, ok := st.locks[id]
	if !ok || held != mode {
		st.oblige("lock", "unlock-not-held", e.curProps, "false", pos)
		return false
	}
	st.onLockReleasing(fr, m, id, mode, pos)
	delete(st.locks, id)
	return true
}

// lockTypeContract finds the type block governing a mutex (the struct that contains the mutex field).
func (st *State) lockTypeContract(m Val) (*Contract, *Ptr, string) {
	p := st.asPtr(m)
	if p.Kind != PObj || p.Path == "" {
		return nil, nil, ""
	}
	tn := st.e.P.relType(p.RootT)
	c := st.e.contracts["type "+tn]
	if c == nil {
		return nil, nil, ""
	}
	return c, p, strings.TrimPrefix(p.Path, ".")
}

// onLockAcquired: with interference, the fields the mutex guards may have been changed by other threads since
// this thread last saw them: forget them (for this object) and assume the lock invariant (monitor rule).
func (st *State) onLockAcquired(fr *Frame, m Val, id, mode string, pos token.Pos) {
	e := st.e
	c, p, mf := st.lockTypeContract(m)
	if c == nil {
		return
	}
	if c.Interference {
		st := st
		stt := p.RootT.Underlying().(*types.Struct)
		for _, g := range c.Guards {
			if g.CallOut || g.Lock != mf {
				continue
			}
			idx, f := findField(stt, g.Field)
			if idx < 0 {
				continue
			}
			if mt, isMap := f.Type().Underlying().(*types.Map); isMap {
				// the map object is fixed; its contents may have been changed by other threads
				mref := sel(st.arr(heapName(e, p.RootT, "."+g.Field), arrSort(SInt)), p.Root)
				dom, ln, vals, vcomps := e.mapNames(mt)
				d := st.arr(dom, "(Array Int (Array Int Bool))")
				st.setArr(dom, "(Array Int (Array Int Bool))", store(d, mref, st.freshSort("interf.dom", "(Array Int Bool)")))
				l := st.arr(ln, "(Array Int Int)")
				nl := st.fresh("interf.len", SInt)
				st.assume(fmt.Sprintf("(>= %s 0)", nl))
				st.setArr(ln, "(Array Int Int)", store(l, mref, nl))
				for i, nm := range vals {
					a := st.arr(nm, arr2Sort(vcomps[i].Sort))
					st.setArr(nm, arr2Sort(vcomps[i].Sort), store(a, mref, st.freshSort("interf.val", "(Array Int "+smtSort(vcomps[i].Sort)+")")))
				}
				continue
			}
			for _, cp := range e.flatten(f.Type()) {
				name := heapName(e, p.RootT, "."+g.Field+cp.Path)
				e.noteRef(name, cp)
				a := st.arr(name, arrSort(cp.Sort))
				nv := st.fresh("interf."+g.Field+cp.Path, cp.Sort)
				st.assumeRange(cp, nv)
				st.setArr(name, arrSort(cp.Sort), store(a, p.Root, nv))
			}
		}
		e.assumeUsed("monitor rule (M1): lock invariants assumed at Lock and proved at Unlock hold whenever the mutex is free, in every interleaving")
	}
	self := Val{T: types.NewPointer(p.RootT), C: []string{p.Root}}
	// token linearity: a key whose token this thread holds is still in the token map, with this thread's object
	stt2 := p.RootT.Underlying().(*types.Struct)
	for _, tf := range c.TokenMaps {
		idx, f := findField(stt2, tf)
		if idx < 0 {
			continue
		}
		mt, ok := f.Type().Underlying().(*types.Map)
		if !ok {
			continue
		}
		tn := e.P.relType(p.RootT)
		mref := sel(st.arr(heapName(e, p.RootT, "."+tf), arrSort(SInt)), p.Root)
		for _, t := range st.tokens {
			if t.typ != tn+"."+tf || t.obj == "" {
				continue
			}
			st.assume(and(st.mapHas(mt, mref, t.key), eq(st.mapGet(mt, mref, t.key).C[0], t.obj)))
		}
	}
	for _, inv := range c.LockInvs[mf] {
		sc := &SpecCtx{st: st, vars: map[string]Val{"self": self}, old: fr.old, where: "lockinv " + c.Name}
		st.assume(e.evalClause(sc, inv))
	}
	st.lockSnap = st.snapshot()
	st.lockSnaps = append(st.lockSnaps, st.lockSnap)
}

// onLockReleasing: the lock invariant must hold again when the mutex is released.
func (st *State) onLockReleasing(fr *Frame, m Val, id, mode string, pos token.Pos) {
	e := st.e
	c, p, mf := st.lockTypeContract(m)
	if c == nil {
		return
	}
	self := Val{T: types.NewPointer(p.RootT), C: []string{p.Root}}
	for i, inv := range c.LockInvs[mf] {
		sc := &SpecCtx{st: st, vars: map[string]Val{"self": self}, old: fr.old, where: "lockinv " + c.Name}
		label := inv.Label
		if label == "" {
			label = fmt.Sprintf("%s.%s#%d", strings.TrimPrefix(c.Name, "type "), mf, i+1)
		}
		props := inv.Props
		if len(props) == 0 {
			props = c.Props
		}
		st.oblige("lock", "inv:"+label, props, e.evalClause(sc, inv), pos)
	}
}

// guardAccess checks the field-guard discipline: a field declared "guardedby" a sibling mutex may only be
// accessed while that mutex is held (W for writes, R or W for reads), unless the object is still private
// to this call (allocated here and not yet published).
func (st *State) guardAccess(fr *Frame, p *Ptr, write bool, pos token.Pos) {
	st.guardClasses(fr, p, write, pos)
	if p.Kind != PObj || p.Path == "" {
		return
	}
	st.guardPublished(fr, p, write, pos)
	e := st.e
	tn := e.P.relType(p.RootT)
	c := e.contracts["type "+tn]
	if c == nil {
		return
	}
	for _, g := range c.Guards {
		if g.CallOut {
			continue
		}
		if p.Path == "."+g.Field || strings.HasPrefix(p.Path, "."+g.Field+".") {
			if st.private[p.Root] {
				return
			}
			id := tn + "." + g.Lock + "@" + p.Root
			mode, held := st.locks[id]
			ok := held && (!write || mode == "W")
			goal := "true"
			if !ok {
				goal = "false"
			}
			rw := "read"
			if write {
				rw = "write"
			}
			props := g.Props
			if len(props) == 0 {
				props = c.Props
			}
			st.oblige("lock", fmt.Sprintf("held:%s.%s:%s", tn, g.Field, rw), mergeProps(props, nil), goal, pos)
			return
		}
	}
}

// fieldClass returns the declared class of a field path of a type ("atomic", "immutable" or "").
func (st *State) fieldClass(rootT types.Type, path string) (string, *Contract) {
	e := st.e
	tn := e.P.relType(rootT)
	c := e.contracts["type "+tn]
	if c == nil {
		return "", nil
	}
	f := strings.TrimPrefix(path, ".")
	top := f
	if i := strings.Index(f, "."); i >= 0 {
		top = f[:i]
	}
	for _, a := range c.AtomicFields {
		if a == top {
			return "atomic", c
		}
	}
	for _, a := range c.ImmutableFields {
		if a == top {
			return "immutable", c
		}
	}
	return "", c
}

// guardAtomic: an access through sync/atomic. Fine for atomic fields; an atomic LOAD of an immutable field is fine
// too; an atomic store to an immutable field of a shared object is a write like any other.
func (st *State) guardAtomic(fr *Frame, p *Ptr, write bool, pos token.Pos) {
	if p.Kind != PObj || p.Path == "" || st.private[p.Root] {
		return
	}
	class, c := st.fieldClass(p.RootT, p.Path)
	if class == "immutable" && write {
		st.oblige("guard", fmt.Sprintf("%s%s:write-after-publish", st.e.P.relType(p.RootT), p.Path), c.Props, "false", pos)
	}
	if class == "atomic" {
		st.oblige("guard", fmt.Sprintf("%s%s:atomic", st.e.P.relType(p.RootT), p.Path), c.Props, "true", pos)
	}
}

// guardClasses: plain (non-atomic) accesses versus the declared field classes.
func (st *State) guardClasses(fr *Frame, p *Ptr, write bool, pos token.Pos) {
	if p.Kind != PObj || st.private[p.Root] {
		return
	}
	e := st.e
	tn := e.P.relType(p.RootT)
	c := e.contracts["type "+tn]
	if c == nil {
		return
	}
	check := func(path string) {
		class, _ := st.fieldClass(p.RootT, path)
		switch {
		case class == "atomic":
			rw := "read"
			if write {
				rw = "write"
			}
			st.oblige("guard", fmt.Sprintf("%s%s:plain-%s-of-atomic", tn, path, rw), c.Props, "false", pos)
		case class == "immutable" && write:
			st.oblige("guard", fmt.Sprintf("%s%s:write-after-publish", tn, path), c.Props, "false", pos)
		case class == "immutable":
			st.oblige("guard", fmt.Sprintf("%s%s:read", tn, path), c.Props, "true", pos)
		}
	}
	if p.Path != "" {
		check(p.Path)
		return
	}
	// whole-struct access (e.g. the copy made by calling a value-receiver method): touches every field
	if stt, ok := p.RootT.Underlying().(*types.Struct); ok {
		for i := 0; i < stt.NumFields(); i++ {
			check("." + stt.Field(i).Name())
		}
	}
}

// publish: a reference stored into shared memory stops being private to this call.
func (st *State) publish(v Val, destRoot string) {
	if st.private[destRoot] {
		return
	}
	for _, t := range v.C {
		if st.private[t] {
			delete(st.private, t)
			// interior objects (embedded structs, embedded arrays and their elements) are shared with their owner
			for k := range st.private {
				if strings.Contains(k, " "+t+")") || strings.Contains(k, " "+t+" ") {
					delete(st.private, k)
				}
			}
		}
	}
}

// noteMapOwner remembers which mutex guards a map that was just read out of a guarded field.
func (st *State) noteMapOwner(p *Ptr, v Val) {
	if p.Kind != PObj || p.Path == "" || len(v.C) != 1 {
		return
	}
	if _, ok := v.T.Underlying().(*types.Map); !ok {
		return
	}
	e := st.e
	tn := e.P.relType(p.RootT)
	c := e.contracts["type "+tn]
	if c == nil {
		return
	}
	for _, g := range c.Guards {
		if !g.CallOut && p.Path == "."+g.Field {
			if st.private[p.Root] {
				return
			}
			props := g.Props
			if len(props) == 0 {
				props = c.Props
			}
			st.mapOwner[v.C[0]] = mapOwner{lock: tn + "." + g.Lock + "@" + p.Root, what: tn + "." + g.Field, props: props}
		}
	}
}

type mapOwner struct {
	lock  string
	what  string
	props []string
}

// guardMapAccess: the contents of a guarded map may only be read/ranged/updated under its mutex.
func (st *State) guardMapAccess(fr *Frame, m Val, write bool, pos token.Pos) {
	if len(m.C) != 1 {
		return
	}
	o, ok := st.mapOwner[m.C[0]]
	if !ok {
		return
	}
	mode, held := st.locks[o.lock]
	goal := "false"
	if held && (!write || mode == "W") {
		goal = "true"
	}
	rw := "read"
	if write {
		rw = "write"
	}
	st.oblige("lock", fmt.Sprintf("held:%s[]:%s", o.what, rw), o.props, goal, pos)
}

// checkNoCallOutUnderLock: a mutex declared "nocallout" is held only across straight-line code.
func (st *State) checkNoCallOutUnderLock(what string, pos token.Pos) {
	e := st.e
	for id := range st.locks {
		at := indexAt(id)
		tnf := id[:at] // Type.field
		i := strings.Index(tnf, ".")
		if i < 0 {
			continue
		}
		c := e.contracts["type "+tnf[:i]]
		if c == nil {
			continue
		}
		for _, nf := range c.NoCallOut {
			if nf == tnf[i+1:] {
				st.oblige("lock", "nocallout:"+tnf, c.Props, "false", pos)
			}
		}
	}
}

// checkCallOutAllowed: call-outs declared "calloutunder" must run while the receiver's mutex is held.
func (st *State) checkCallOutAllowed(fr *Frame, kind string, pos token.Pos) {
	st.checkNoCallOutUnderLock(kind, pos)
	e := st.e
	i := strings.Index(kind, ".")
	if i <= 0 {
		return
	}
	tn := kind[:i]
	c := e.contracts["type "+tn]
	if c == nil {
		return
	}
	for _, g := range c.Guards {
		if !g.CallOut || tn+"."+g.Field != kind {
			continue
		}
		top := st.frames[0]
		if len(top.params) == 0 {
			continue
		}
		id := tn + "." + g.Lock + "@" + top.params[0].C[0]
		mode, held := st.locks[id]
		goal := "false"
		if held && mode == "W" {
			goal = "true"
		}
		props := g.Props
		if len(props) == 0 {
			props = c.Props
		}
		st.oblige("lock", "callout-under:"+kind, mergeProps(props, nil), goal, pos)
	}
}

// evalHolds evaluates the (key, object) expressions of a holds clause.
func (st *State) evalHolds(vars map[string]Val, old *Snapshot, h [3]string, where, fnName string) (string, string) {
	e := st.e
	sc := &SpecCtx{st: st, vars: vars, old: old, where: where, fn: fnName}
	kx, err := parseSpecExpr(h[0])
	if err != nil {
		e.unsupportedf("holds: %v", err)
	}
	ox, err := parseSpecExpr(h[1])
	if err != nil {
		e.unsupportedf("holds: %v", err)
	}
	var k, o Val
	func() {
		defer func() {
			if r := recover(); r != nil {
				if se, ok := r.(specErr); ok {
					e.unsupportedf("holds clause: %s", se.msg)
				}
				panic(r)
			}
		}()
		k, o = sc.eval(kx), sc.eval(ox)
	}()
	return k.C[0], o.C[0]
}

// onGo: a go statement starts a thread. The tokens named by the closure's holds clauses are transferred to it;
// its requires clauses are obligations here; it must not capture a slice borrowed from this call's caller.
func (st *State) onGo(fr *Frame, x *ssa.Go, fv Val) {
	e := st.e
	if fv.F == nil {
		return
	}
	fn := fv.F.Fn
	name := fn.RelString(e.P.TPkg)
	c := e.contracts[name]
	vars := map[string]Val{}
	for i, v := range fn.FreeVars {
		if i < len(fv.F.Bindings) {
			vars[v.Name()] = fv.F.Bindings[i]
		}
	}
	// ownership: captured slices must not alias memory borrowed from the caller
	for i, v := range fn.FreeVars {
		if i >= len(fv.F.Bindings) {
			continue
		}
		b := fv.F.Bindings[i]
		pt, ok := b.T.Underlying().(*types.Pointer)
		if !ok {
			continue
		}
		if _, isSlice := pt.Elem().Underlying().(*types.Slice); !isSlice {
			continue
		}
		cell := st.loadPtrQuiet(st.asPtr(b))
		goal := "true"
		if who, borrowed := st.borrowed[cell.C[0]]; borrowed {
			goal = "false"
			_ = who
		}
		props := e.curProps
		if c != nil {
			props = mergeProps(c.Props, nil)
		}
		st.oblige("own", "go:"+name+"#"+v.Name(), props, goal, x.Pos())
	}
	if c == nil {
		return
	}
	sc := &SpecCtx{st: st, vars: vars, old: st.snapshot(), where: "go " + name, fn: name}
	st.evalLets(sc, c)
	for i, r := range c.Requires {
		label := r.Label
		if label == "" {
			label = fmt.Sprintf("req%d", i+1)
		}
		st.oblige("pre", name+"."+label, mergeProps(r.Props, e.curProps), e.evalClause(sc, r), x.Pos())
	}
	for _, h := range c.Holds {
		k, o := st.evalHolds(vars, sc.old, h, "go "+name, name)
		var conds []string
		idx := -1
		for i, t := range st.tokens {
			if t.typ != h[2] {
				continue
			}
			if t.key == k && t.obj == o {
				idx = i
				conds = []string{"true"}
				break
			}
			conds = append(conds, and(eq(t.key, k), eq(t.obj, o)))
			if idx < 0 {
				idx = i
			}
		}
		st.oblige("tok", "transfer:"+name, mergeProps(c.Props, nil), or(conds...), x.Pos())
		if idx >= 0 {
			st.tokens = append(append([]buildTok{}, st.tokens[:idx]...), st.tokens[idx+1:]...)
		}
	}
}
func (st *State) checkBorrowWrite(fr *Frame, s Val, pos token.Pos) {}
func (st *State) checkBorrowRead(fr *Frame, s Val, pos token.Pos)  {}

// onFunctionEntry: slice parameters are borrowed from the caller; thread closures start with their tokens.
func (st *State) onFunctionEntry(fr *Frame) {
	for i, p := range fr.fn.Params {
		if _, ok := p.Type().Underlying().(*types.Slice); ok {
			st.borrowed[fr.params[i].C[0]] = p.Name()
		}
	}
	c := fr.contract
	if c == nil {
		return
	}
	for _, h := range c.Holds {
		k, o := st.evalHolds(fr.specVars, fr.old, h, fr.fn.Name()+" holds", fr.fn.RelString(st.e.P.TPkg))
		st.tokens = append(st.tokens, buildTok{key: k, obj: o, typ: h[2]})
	}
}
func (st *State) onFunctionExit(fr *Frame, pos token.Pos) {
	// every lock acquired by the function is released on return
	for id := range st.locks {
		st.oblige("lock", "held-at-return:"+id[:indexAt(id)], st.e.curProps, "false", pos)
	}
	// atomic-section discipline (C08): a single-key operation touches the shared map in at most one critical
	// section (one bucket-lock acquisition, or one sync.Map primitive), which is its linearization point
	if fr.contract != nil && fr.contract.Flags["onesection"] != "" {
		goal := "true"
		for _, n := range st.lockCount {
			if n > 1 {
				goal = "false"
			}
		}
		if st.smOps > 1 {
			goal = "false"
		}
		st.oblige("atomic", "one-section", []string{"C08"}, goal, pos)
	}
	// every build token obtained (or owned at entry) has been consumed or handed to a goroutine
	leak := "true"
	for _, t := range st.tokens {
		if t.typ != "*" { // tokens lent by the caller through a precondition stay with the caller
			leak = "false"
		}
	}
	if st.usesTokens(fr) {
		st.oblige("tok", "leak", st.e.curProps, leak, pos)
	}
}
func (st *State) onModularCall(fr *Frame, fn *ssa.Function, c *Contract, args []Val, pos token.Pos) {
	if c != nil && c.Flags["pure"] == "" {
		st.checkNoCallOutUnderLock(fn.Name(), pos)
	}
}

func indexAt(s string) int {
	for i := 0; i < len(s); i++ {
		if s[i] == '@' {
			return i
		}
	}
	return len(s)
}

// ---- linear tokens for per-key build locks (tokenmap), publication through channel close (chanpub) ----

type buildTok struct {
	key string // key term (map key)
	obj string // the value inserted (e.g. the *kl)
	typ string // owning type + field, e.g. Failover.keyLocks
}

// tokenMapOf: is map m (read from a guarded field) declared a token map? Returns the owner record.
func (st *State) tokenMapOf(m Val) (*Contract, mapOwner, bool) {
	if len(m.C) != 1 {
		return nil, mapOwner{}, false
	}
	o, ok := st.mapOwner[m.C[0]]
	if !ok {
		return nil, o, false
	}
	i := strings.Index(o.what, ".")
	c := st.e.contracts["type "+o.what[:i]]
	if c == nil {
		return nil, o, false
	}
	for _, f := range c.TokenMaps {
		if f == o.what[i+1:] {
			return c, o, true
		}
	}
	return nil, o, false
}

// onMapInsert: inserting into a token map creates the token of that key (the key must have been absent).
func (st *State) onMapInsert(fr *Frame, m, k, v Val, had string, pos token.Pos) {
	c, o, ok := st.tokenMapOf(m)
	if !ok {
		return
	}
	e := st.e
	st.sawTokens = true
	st.oblige("tok", "dup:"+o.what, o.props, not(had), pos)
	st.tokens = append(st.tokens, buildTok{key: k.C[0], obj: v.C[0], typ: o.what})
	field := o.what[strings.Index(o.what, ".")+1:]
	for _, cl := range c.MapInserts[field] {
		// definitional ghost facts about the freshly allocated value
		goal := "false"
		if st.private[v.C[0]] {
			goal = "true"
		}
		st.oblige("own", "fresh-insert:"+o.what, o.props, goal, pos)
		sc := &SpecCtx{st: st, vars: map[string]Val{"key": k, "value": v}, old: fr.old, where: "mapinsert " + o.what}
		st.assume(e.evalClause(sc, cl))
	}
	delete(st.private, v.C[0]) // published
	e.assumeUsed("token linearity (M2): the set of outstanding tokens equals the key set of the token map, so at most one thread holds the token of a key")
}

// onMapDelete: deleting from a token map consumes the token of that key.
func (st *State) onMapDelete(fr *Frame, m, k Val, pos token.Pos) {
	_, o, ok := st.tokenMapOf(m)
	if !ok {
		return
	}
	var conds []string
	idx := -1
	for i, t := range st.tokens {
		if t.typ != o.what {
			continue
		}
		if t.key == k.C[0] {
			idx = i
			conds = []string{"true"}
			break
		}
		conds = append(conds, eq(t.key, k.C[0]))
		if idx < 0 {
			idx = i
		}
	}
	st.oblige("tok", "consume:"+o.what, o.props, or(conds...), pos)
	if idx >= 0 {
		st.released = append(st.released, st.tokens[idx])
		st.tokens = append(append([]buildTok{}, st.tokens[:idx]...), st.tokens[idx+1:]...)
	}
}

// tokHeld returns an SMT term that is true iff a token for key term k is held.
func (st *State) tokHeld(k string) string {
	var conds []string
	for _, t := range st.tokens {
		if t.key == k {
			return "true"
		}
		conds = append(conds, eq(t.key, k))
	}
	return or(conds...)
}

// noteChanOwner remembers which object a channel was read from (for chanpub / published rules).
func (st *State) noteChanOwner(p *Ptr, v Val) {
	if p.Kind != PObj || p.Path == "" || len(v.C) != 1 {
		return
	}
	if _, ok := v.T.Underlying().(*types.Chan); !ok {
		return
	}
	tn := st.e.P.relType(p.RootT)
	c := st.e.contracts["type "+tn]
	if c == nil {
		return
	}
	f := strings.TrimPrefix(p.Path, ".")
	if _, ok := c.ChanPubs[f]; ok {
		st.chanOwner[v.C[0]] = chanOwner{typ: tn, root: p.Root, field: f, rootT: p.RootT}
	}
}

type chanOwner struct {
	typ, root, field string
	rootT            types.Type
}

// onChanClose: closing a publication channel requires the token of its object and the publication predicate.
func (st *State) onChanClose(fr *Frame, ch Val, pos token.Pos) {
	o, ok := st.chanOwner[ch.C[0]]
	if !ok {
		return
	}
	e := st.e
	c := e.contracts["type "+o.typ]
	self := Val{T: types.NewPointer(o.rootT), C: []string{o.root}}
	// the closer must be the owner: it holds (or has just released) the token whose object this is
	owner := "false"
	for _, t := range append(append([]buildTok{}, st.tokens...), st.released...) {
		if t.obj == o.root {
			owner = "true"
		}
	}
	if st.private[o.root] {
		owner = "true"
	}
	st.oblige("tok", "close-by-owner:"+o.typ+"."+o.field, c.Props, owner, pos)
	for i, cl := range c.ChanPubs[o.field] {
		sc := &SpecCtx{st: st, vars: map[string]Val{"self": self}, old: fr.old, where: "chanpub " + o.typ}
		label := cl.Label
		if label == "" {
			label = fmt.Sprintf("%s.%s#%d", o.typ, o.field, i+1)
		}
		props := cl.Props
		if len(props) == 0 {
			props = c.Props
		}
		st.oblige("pre", "close.pub:"+label, props, e.evalClause(sc, cl), pos)
	}
}

// onChanRecv: after a completed receive the published fields hold what the owner published.
func (st *State) onChanRecv(fr *Frame, ch Val, pos token.Pos) {
	o, ok := st.chanOwner[ch.C[0]]
	if !ok {
		return
	}
	e := st.e
	c := e.contracts["type "+o.typ]
	stt := o.rootT.Underlying().(*types.Struct)
	isOwner := false
	for _, t := range st.tokens {
		if t.obj == o.root {
			isOwner = true
		}
	}
	if !isOwner {
		for _, fname := range c.Published[o.field] {
			idx, f := findField(stt, fname)
			if idx < 0 {
				continue
			}
			for _, cp := range e.flatten(f.Type()) {
				name := heapName(e, o.rootT, "."+fname+cp.Path)
				e.noteRef(name, cp)
				a := st.arr(name, arrSort(cp.Sort))
				nv := st.fresh("pub."+fname+cp.Path, cp.Sort)
				st.assumeRange(cp, nv)
				st.setArr(name, arrSort(cp.Sort), store(a, o.root, nv))
			}
		}
	}
	st.recvd[o.root] = true
	self := Val{T: types.NewPointer(o.rootT), C: []string{o.root}}
	for _, cl := range c.ChanPubs[o.field] {
		sc := &SpecCtx{st: st, vars: map[string]Val{"self": self}, old: fr.old, where: "chanpub " + o.typ}
		st.assume(e.evalClause(sc, cl))
	}
	e.assumeUsed("close(ch) happens-before a receive that completes because of it: fields published before close are visible after the receive")
}

// guardPublished: fields published through a channel may be written only by the owner (token holder) before the
// close, and read only by the owner or after a completed receive.
func (st *State) guardPublished(fr *Frame, p *Ptr, write bool, pos token.Pos) {
	if p.Kind != PObj || p.Path == "" {
		return
	}
	e := st.e
	tn := e.P.relType(p.RootT)
	c := e.contracts["type "+tn]
	if c == nil || len(c.Published) == 0 {
		return
	}
	f := strings.TrimPrefix(p.Path, ".")
	for ch, fields := range c.Published {
		for _, pf := range fields {
			if pf != f && !strings.HasPrefix(f, pf+".") {
				continue
			}
			if st.private[p.Root] {
				return
			}
			ok := false
			for _, t := range st.tokens {
				if t.obj == p.Root {
					ok = true
				}
			}
			if !write && st.recvd[p.Root] {
				ok = true
			}
			goal := "false"
			if ok {
				goal = "true"
			}
			rw := "read"
			if write {
				rw = "write"
			}
			st.oblige("own", fmt.Sprintf("published:%s.%s:%s", tn, pf, rw), c.Props, goal, pos)
			_ = ch
			return
		}
	}
}

// usesTokens: does the function under verification deal with token maps at all (so that tok:leak is meaningful)?
func (st *State) usesTokens(fr *Frame) bool {
	if fr.contract != nil && len(fr.contract.Holds) > 0 {
		return true
	}
	return st.sawTokens
}
