package main

import (
	"fmt"
	"go/token"
	"go/types"
	"strings"

	"golang.org/x/tools/go/ssa"
)

// Concurrency rules (thread-modular). See DESIGN.md section 2.5.

// lockID names a mutex by the pointer descriptor of the mutex object.
func lockID(st *State, v Val) string {
	p := st.asPtr(v)
	return st.e.P.relType(p.RootT) + p.Path + "@" + p.Root
}

// lockOp models Lock/RLock/Unlock/RUnlock on the lockset of the current thread.
func (st *State) lockOp(fr *Frame, m Val, mode string, acquire bool, pos token.Pos) bool {
	e := st.e
	id := lockID(st, m)
	if acquire {
		if _, held := st.locks[id]; held {
			// re-acquiring a non-reentrant mutex deadlocks
			st.oblige("lock", "self-deadlock", e.curProps, "false", pos)
			return false
		}
		st.locks[id] = mode
		st.onLockAcquired(fr, m, id, mode, pos)
		return true
	}
	held, ok := st.locks[id]
	if !ok || held != mode {
		st.oblige("lock", "unlock-not-held", e.curProps, "false", pos)
		return false
	}
	st.onLockReleasing(fr, m, id, mode, pos)
	delete(st.locks, id)
	return true
}

// lockTypeContract finds the type block governing a mutex (the struct that contains the mutex field).
func (st *State) lockTypeContract(m Val) (*Contract, *Ptr, string) {
	p := st.asPtr(m)
	if p.Kind != PObj || p.Path == "" {
		return nil, nil, ""
	}
	tn := st.e.P.relType(p.RootT)
	c := st.e.contracts["type "+tn]
	if c == nil {
		return nil, nil, ""
	}
	return c, p, strings.TrimPrefix(p.Path, ".")
}

// onLockAcquired: with interference, the fields the mutex guards may have been changed by other threads since
// this thread last saw them: forget them (for this object) and assume the lock invariant (monitor rule).
func (st *State) onLockAcquired(fr *Frame, m Val, id, mode string, pos token.Pos) {
	e := st.e
	c, p, mf := st.lockTypeContract(m)
	if c == nil {
		return
	}
	if c.Interference {
		st := st
		stt := p.RootT.Underlying().(*types.Struct)
		for _, g := range c.Guards {
			if g.CallOut || g.Lock != mf {
				continue
			}
			idx, f := findField(stt, g.Field)
			if idx < 0 {
				continue
			}
			for _, cp := range e.flatten(f.Type()) {
				name := heapName(e, p.RootT, "."+g.Field+cp.Path)
				e.noteRef(name, cp)
				a := st.arr(name, arrSort(cp.Sort))
				nv := st.fresh("interf."+g.Field+cp.Path, cp.Sort)
				st.assumeRange(cp, nv)
				st.setArr(name, arrSort(cp.Sort), store(a, p.Root, nv))
			}
		}
		e.assumeUsed("monitor rule (M1): lock invariants assumed at Lock and proved at Unlock hold whenever the mutex is free, in every interleaving")
	}
	self := Val{T: types.NewPointer(p.RootT), C: []string{p.Root}}
	for _, inv := range c.LockInvs[mf] {
		sc := &SpecCtx{st: st, vars: map[string]Val{"self": self}, old: fr.old, where: "lockinv " + c.Name}
		st.assume(e.evalClause(sc, inv))
	}
	st.lockSnap = st.snapshot()
}

// onLockReleasing: the lock invariant must hold again when the mutex is released.
func (st *State) onLockReleasing(fr *Frame, m Val, id, mode string, pos token.Pos) {
	e := st.e
	c, p, mf := st.lockTypeContract(m)
	if c == nil {
		return
	}
	self := Val{T: types.NewPointer(p.RootT), C: []string{p.Root}}
	for i, inv := range c.LockInvs[mf] {
		sc := &SpecCtx{st: st, vars: map[string]Val{"self": self}, old: fr.old, where: "lockinv " + c.Name}
		label := inv.Label
		if label == "" {
			label = fmt.Sprintf("%s.%s#%d", strings.TrimPrefix(c.Name, "type "), mf, i+1)
		}
		props := inv.Props
		if len(props) == 0 {
			props = c.Props
		}
		st.oblige("lock", "inv:"+label, props, e.evalClause(sc, inv), pos)
	}
}

// guardAccess checks the field-guard discipline: a field declared "guardedby" a sibling mutex may only be
// accessed while that mutex is held (W for writes, R or W for reads), unless the object is still private
// to this call (allocated here and not yet published).
func (st *State) guardAccess(fr *Frame, p *Ptr, write bool, pos token.Pos) {
	if p.Kind != PObj || p.Path == "" {
		return
	}
	e := st.e
	tn := e.P.relType(p.RootT)
	c := e.contracts["type "+tn]
	if c == nil {
		return
	}
	for _, g := range c.Guards {
		if g.CallOut {
			continue
		}
		if p.Path == "."+g.Field || strings.HasPrefix(p.Path, "."+g.Field+".") {
			if st.private[p.Root] {
				return
			}
			id := tn + "." + g.Lock + "@" + p.Root
			mode, held := st.locks[id]
			ok := held && (!write || mode == "W")
			goal := "true"
			if !ok {
				goal = "false"
			}
			rw := "read"
			if write {
				rw = "write"
			}
			props := g.Props
			if len(props) == 0 {
				props = c.Props
			}
			st.oblige("lock", fmt.Sprintf("held:%s.%s:%s", tn, g.Field, rw), mergeProps(props, nil), goal, pos)
			return
		}
	}
}
func (st *State) guardAtomic(fr *Frame, p *Ptr, write bool, pos token.Pos) {}

// noteMapOwner remembers which mutex guards a map that was just read out of a guarded field.
func (st *State) noteMapOwner(p *Ptr, v Val) {
	if p.Kind != PObj || p.Path == "" || len(v.C) != 1 {
		return
	}
	if _, ok := v.T.Underlying().(*types.Map); !ok {
		return
	}
	e := st.e
	tn := e.P.relType(p.RootT)
	c := e.contracts["type "+tn]
	if c == nil {
		return
	}
	for _, g := range c.Guards {
		if !g.CallOut && p.Path == "."+g.Field {
			if st.private[p.Root] {
				return
			}
			props := g.Props
			if len(props) == 0 {
				props = c.Props
			}
			st.mapOwner[v.C[0]] = mapOwner{lock: tn + "." + g.Lock + "@" + p.Root, what: tn + "." + g.Field, props: props}
		}
	}
}

type mapOwner struct {
	lock  string
	what  string
	props []string
}

// guardMapAccess: the contents of a guarded map may only be read/ranged/updated under its mutex.
func (st *State) guardMapAccess(fr *Frame, m Val, write bool, pos token.Pos) {
	if len(m.C) != 1 {
		return
	}
	o, ok := st.mapOwner[m.C[0]]
	if !ok {
		return
	}
	mode, held := st.locks[o.lock]
	goal := "false"
	if held && (!write || mode == "W") {
		goal = "true"
	}
	rw := "read"
	if write {
		rw = "write"
	}
	st.oblige("lock", fmt.Sprintf("held:%s[]:%s", o.what, rw), o.props, goal, pos)
}

// checkCallOutAllowed: call-outs declared "calloutunder" must run while the receiver's mutex is held.
func (st *State) checkCallOutAllowed(fr *Frame, kind string, pos token.Pos) {
	e := st.e
	i := strings.Index(kind, ".")
	if i <= 0 {
		return
	}
	tn := kind[:i]
	c := e.contracts["type "+tn]
	if c == nil {
		return
	}
	for _, g := range c.Guards {
		if !g.CallOut || tn+"."+g.Field != kind {
			continue
		}
		top := st.frames[0]
		if len(top.params) == 0 {
			continue
		}
		id := tn + "." + g.Lock + "@" + top.params[0].C[0]
		mode, held := st.locks[id]
		goal := "false"
		if held && mode == "W" {
			goal = "true"
		}
		props := g.Props
		if len(props) == 0 {
			props = c.Props
		}
		st.oblige("lock", "callout-under:"+kind, mergeProps(props, nil), goal, pos)
	}
}
func (st *State) onGo(fr *Frame, x *ssa.Go, fv Val)                {}
func (st *State) onChanRecv(fr *Frame, ch Val, pos token.Pos)      {}
func (st *State) onChanClose(fr *Frame, ch Val, pos token.Pos)     {}
func (st *State) checkBorrowWrite(fr *Frame, s Val, pos token.Pos) {}
func (st *State) checkBorrowRead(fr *Frame, s Val, pos token.Pos)  {}
func (st *State) onFunctionEntry(fr *Frame)                        {}
func (st *State) onFunctionExit(fr *Frame, pos token.Pos) {
	// every lock acquired by the function is released on return
	for id := range st.locks {
		st.oblige("lock", "held-at-return:"+id[:indexAt(id)], st.e.curProps, "false", pos)
	}
}
func (st *State) onModularCall(fr *Frame, fn *ssa.Function, c *Contract, args []Val, pos token.Pos) {}

func indexAt(s string) int {
	for i := 0; i < len(s); i++ {
		if s[i] == '@' {
			return i
		}
	}
	return len(s)
}
