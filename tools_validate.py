#!/usr/bin/env python3
# Validates MANIFEST.json and evidence files against the harness schemas (uses the tooling venv's jsonschema).
import json, sys, glob
import jsonschema
m = json.load(open('/verif/MANIFEST.json'))
jsonschema.validate(m, json.load(open('/root/.vp/MANIFEST.schema.json')))
props = [json.loads(l)['id'] for l in open('/verif/properties.jsonl')]
claimed = [c['property_id'] for c in m['checks']]
na = [c['property_id'] for c in m.get('not_applicable', [])]
assert sorted(claimed + na) == sorted(props), (sorted(claimed + na), props)
es = json.load(open('/root/.vp/EVIDENCE.schema.json'))
for c in m['checks']:
    f = c['evidence_file']
    try:
        ev = json.load(open(f))
    except FileNotFoundError:
        print('missing evidence', f); continue
    jsonschema.validate(ev, es)
    assert ev['coverage']['obligations'] == ev['coverage']['discharged'] or ev['violations'] > 0 or ev['coverage'].get('known_findings_printed'), f
print('manifest ok: claimed', claimed, 'not_applicable', na)
