#!/usr/bin/env python3
"""Re-run the repository's own tests on mutants whose meta says existing_tests != pass (sequentially; the suite is timing sensitive)."""
import json, glob, subprocess, tempfile, os, shutil, sys
env = dict(os.environ, GOFLAGS='-mod=mod', GOPROXY='off', GOSUMDB='off', GOTOOLCHAIN='local')
for meta in sorted(glob.glob('/verif/selftest/mutants/*.json')):
    m = json.load(open(meta))
    if m.get('existing_tests') == 'pass' and '--all' not in sys.argv:
        continue
    tmp = tempfile.mkdtemp(prefix='retest-')
    dst = os.path.join(tmp, 'repo')
    subprocess.check_call(['git', '-C', '/repo', 'worktree', 'add', '--detach', '-q', dst, 'HEAD'])
    try:
        subprocess.check_call(['git', '-C', dst, 'apply', meta[:-5] + '.patch'])
        r = subprocess.run(['go', 'test', '-vet=off', '-count=1', '-timeout', '25m', './...'], cwd=dst, env=env, capture_output=True, text=True)
        m['existing_tests'] = 'pass' if r.returncode == 0 else 'FAIL'
        json.dump(m, open(meta, 'w'), indent=1)
        print(os.path.basename(meta), m['existing_tests'])
        if r.returncode != 0:
            print('\n'.join(l for l in r.stdout.splitlines() if l.startswith('--- FAIL') or 'Error:' in l)[:600])
    finally:
        subprocess.call(['git', '-C', '/repo', 'worktree', 'remove', '--force', dst])
        shutil.rmtree(tmp, ignore_errors=True)
