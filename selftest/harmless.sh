#!/bin/bash
# Brittleness self test: behaviour-preserving edits of /repo (renamed locals, reordered independent statements,
# shifted lines, extracted helpers) must leave every check green. Usage: harmless.sh [name ...]
# Each selftest/harmless/<name>.patch is applied to a scratch worktree and every property listed in <name>.props
# (default: all 18) is checked there. A non-zero exit or a VIOLATION line is a false alarm of the machinery.
set -u
export GOFLAGS=-mod=mod GOPROXY=off GOSUMDB=off GOTOOLCHAIN=local
HERE="$(cd "$(dirname "$0")" && pwd)"
VERIF="$(dirname "$HERE")"
ALL="C01 C02 C03 C04 C05 C06 C07 C08 C09 C10 C11 C12 C13 C14 C15 C16 C17 C18"
bad=0; tot=0
for patch in "$HERE"/harmless/*.patch; do
  name=$(basename "$patch" .patch)
  if [ $# -gt 0 ] && ! echo " $* " | grep -q " $name "; then continue; fi
  props="$ALL"; [ -f "$HERE/harmless/$name.props" ] && props=$(cat "$HERE/harmless/$name.props")
  tmp=$(mktemp -d /tmp/harmless-XXXXXX)
  git -C /repo worktree add --detach -q "$tmp/repo" HEAD || { echo "worktree failed"; exit 2; }
  cp /repo/contracts_verif.go "$tmp/repo/contracts_verif.go"
  if ! git -C "$tmp/repo" apply "$patch" 2>/dev/null; then
    echo "HARMLESS-ERROR $name: patch does not apply"; bad=$((bad+1)); tot=$((tot+1))
  elif ! (cd "$tmp/repo" && go build ./... && go vet -tags verif . >/dev/null 2>&1); then
    echo "HARMLESS-ERROR $name: does not build"; bad=$((bad+1)); tot=$((tot+1))
  else
    for p in $props; do
      out=$(VERIF_REPO="$tmp/repo" "$VERIF/check" "$p" -no-evidence 2>&1); code=$?
      tot=$((tot+1))
      if [ $code -eq 0 ] && ! echo "$out" | grep -q "^VIOLATION"; then
        echo "ok   $name/$p stays green$(echo "$out" | grep -c '^NOTE:' | sed 's/^0$//;s/^\([0-9][0-9]*\)$/ (\1 re-bound names)/')"
      else
        echo "FAIL $name/$p: false alarm (exit $code)"; echo "$out" | grep -E "VIOLATION|NOT-VERIFIED|UNDECIDED" | head -6
        bad=$((bad+1))
      fi
    done
  fi
  git -C /repo worktree remove --force "$tmp/repo"; rm -rf "$tmp"
done
echo "harmless: $((tot-bad))/$tot checks stayed green"
[ "$bad" -eq 0 ]
