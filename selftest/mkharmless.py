#!/usr/bin/env python3
"""Create a behaviour-preserving canary: mkharmless.py <name> [--props "C01 C02"] (<file> sed:<expr> | <file> <old> <new>) ...
Writes selftest/harmless/<name>.patch (+ .props). The edit must build and pass the repository's tests."""
import sys, subprocess, tempfile, shutil, os
args = sys.argv[1:]
name = args.pop(0)
props = None
if args and args[0] == '--props':
    args.pop(0); props = args.pop(0)
tmp = tempfile.mkdtemp(prefix='harm-')
dst = os.path.join(tmp, 'repo')
env = dict(os.environ, GOFLAGS='-mod=mod', GOPROXY='off', GOSUMDB='off', GOTOOLCHAIN='local')
try:
    subprocess.check_call(['git', '-C', '/repo', 'worktree', 'add', '--detach', '-q', dst, 'HEAD'])
    while args:
        f = args.pop(0)
        p = os.path.join(dst, f)
        if args[0].startswith('sed:'):
            subprocess.check_call(['sed', '-i', '-E', args.pop(0)[4:], p])
        else:
            old, new = args.pop(0), args.pop(0)
            s = open(p).read()
            if s.count(old) != 1:
                sys.exit(f'{f}: pattern occurs {s.count(old)} times: {old!r}')
            open(p, 'w').write(s.replace(old, new))
    subprocess.check_call(['gofmt', '-l', '.'], cwd=dst)
    diff = subprocess.check_output(['git', '-C', dst, 'diff'])
    if not diff:
        sys.exit('empty diff')
    r = subprocess.run(['go', 'build', './...'], cwd=dst, env=env, capture_output=True, text=True)
    if r.returncode != 0:
        sys.exit('does not build:\n' + r.stderr)
    if os.environ.get('MUT_RUN_TESTS', '1') == '1':
        r = subprocess.run(['go', 'test', '-count=1', '-timeout', '25m', './...'], cwd=dst, env=env, capture_output=True, text=True)
        if r.returncode != 0:
            print(r.stdout[-3000:]); sys.exit('tests fail: not a harmless edit')
    out = os.path.join('/verif/selftest/harmless', name)
    open(out + '.patch', 'wb').write(diff)
    if props:
        open(out + '.props', 'w').write(props + '\n')
    print('wrote', out + '.patch', len(diff.splitlines()), 'lines')
finally:
    subprocess.call(['git', '-C', '/repo', 'worktree', 'remove', '--force', dst])
    shutil.rmtree(tmp, ignore_errors=True)
