#!/usr/bin/env python3
"""Create a must-fail mutant: mkmutant.py <name> <prop> <expected-obligation-substring|PASS> <file> <old> <new> [<file> <old> <new> ...]
Writes selftest/mutants/<prop>__<name>.patch and .json. The patch is a unified diff against /repo HEAD."""
import sys, subprocess, tempfile, shutil, os, json
name, prop, expect = sys.argv[1:4]
edits = sys.argv[4:]
tmp = tempfile.mkdtemp(prefix='mut-')
try:
    dst = os.path.join(tmp, 'repo')
    subprocess.check_call(['git', '-C', '/repo', 'worktree', 'add', '--detach', '-q', dst, 'HEAD'])
    for i in range(0, len(edits), 3):
        f, old, new = edits[i:i+3]
        p = os.path.join(dst, f)
        s = open(p).read()
        if s.count(old) != 1:
            sys.exit(f'{f}: pattern occurs {s.count(old)} times: {old!r}')
        open(p, 'w').write(s.replace(old, new))
    diff = subprocess.check_output(['git', '-C', dst, 'diff'])
    env = dict(os.environ, GOFLAGS='-mod=mod', GOPROXY='off', GOSUMDB='off', GOTOOLCHAIN='local')
    r = subprocess.run(['go', 'build', './...'], cwd=dst, env=env, capture_output=True, text=True)
    if r.returncode != 0:
        sys.exit('mutant does not build:\n' + r.stderr)
    tests = 'skipped'
    if os.environ.get('MUT_RUN_TESTS', '1') == '1':
        r = subprocess.run(['go', 'test', '-vet=off', '-count=1', '-timeout', '25m', './...'], cwd=dst, env=env, capture_output=True, text=True)
        tests = 'pass' if r.returncode == 0 else 'FAIL'
        if r.returncode != 0:
            print(r.stdout[-3000:])
    out = os.path.join('/verif/selftest/mutants', f'{prop}__{name}')
    open(out + '.patch', 'wb').write(diff)
    json.dump({'name': name, 'property': prop, 'expect': expect, 'existing_tests': tests}, open(out + '.json', 'w'), indent=1)
    print('wrote', out + '.patch', 'tests:', tests)
finally:
    subprocess.call(['git', '-C', '/repo', 'worktree', 'remove', '--force', os.path.join(tmp, 'repo')])
    shutil.rmtree(tmp, ignore_errors=True)
