#!/bin/bash
# Must-fail self test: every mutant must make its property's check report the expected obligation
# (or, for canaries marked PASS, must keep the check green). Usage: run.sh [Cxx ...]
set -u
export GOFLAGS=-mod=mod GOPROXY=off GOSUMDB=off GOTOOLCHAIN=local
HERE="$(cd "$(dirname "$0")" && pwd)"
VERIF="$(dirname "$HERE")"
FILTER="${*:-}"
fail=0; n=0
run_one() {
  local meta="$1"
  local base="${meta%.json}"
  local prop expect name
  prop=$(jq -r .property "$meta"); expect=$(jq -r .expect "$meta"); name=$(jq -r .name "$meta")
  local tmp; tmp=$(mktemp -d /tmp/selftest-XXXXXX)
  git -C /repo worktree add --detach -q "$tmp/repo" HEAD || { echo "worktree failed"; return 1; }
  # carry uncommitted changes of the contract file so that the self test checks the working tree's contracts
  cp /repo/contracts_verif.go "$tmp/repo/contracts_verif.go"
  if ! git -C "$tmp/repo" apply "$base.patch" 2>/dev/null; then
    echo "SELFTEST-ERROR $prop/$name: patch does not apply"; git -C /repo worktree remove --force "$tmp/repo"; rm -rf "$tmp"; return 1
  fi
  local out; out=$(VERIF_REPO="$tmp/repo" "$VERIF/check" "$prop" -no-evidence 2>&1); local code=$?
  git -C /repo worktree remove --force "$tmp/repo"; rm -rf "$tmp"
  if [ "$expect" = "PASS" ]; then
    if [ $code -eq 0 ]; then echo "ok   $prop/$name (canary stays green)"; return 0; fi
    echo "FAIL $prop/$name: canary raised an alarm"; echo "$out" | grep -E "VIOLATION|NOT-VERIFIED" | head -5; return 1
  fi
  if [ $code -ne 0 ] && echo "$out" | grep "^VIOLATION" | grep -qF -- "$expect"; then
    local conf="no-failing-input-found"
    echo "$out" | grep "^VIOLATION" | grep -F -- "$expect" | grep -qv "no-failing-input-found" && conf="replay-confirmed"
    echo "ok   $prop/$name -> $expect ($conf)"; return 0
  fi
  echo "FAIL $prop/$name: expected VIOLATION with '$expect' (exit $code)"; echo "$out" | grep -E "VIOLATION|NOT-VERIFIED|UNDECIDED" | head -5; return 1
}
export -f run_one
export VERIF
metas=()
for meta in "$HERE"/mutants/*.json; do
  [ -e "$meta" ] || continue
  prop=$(jq -r .property "$meta")
  if [ -n "$FILTER" ] && ! echo " $FILTER " | grep -q " $prop "; then continue; fi
  metas+=("$meta")
done
# the seeded changes written by independent sub-agents (/verif/seeded/<id>/patch.diff) belong to the corpus too
for sd in "$VERIF"/seeded/*/; do
  tag=$(basename "$sd")
  [ -f "$sd/patch.diff" ] || continue
  id="$tag"
  [ -f "$sd/meta.json" ] && id=$(jq -r .property "$sd/meta.json")
  if [ -n "$FILTER" ] && ! echo " $FILTER " | grep -q " $id "; then continue; fi
  tmpm="/tmp/selftest-seed-$$-$tag"
  mkdir -p "$tmpm"
  cp "$sd/patch.diff" "$tmpm/$tag.patch"
  printf '{"name": "seeded-%s", "property": "%s", "expect": "property=%s", "existing_tests": "pass"}\n' "$tag" "$id" "$id" > "$tmpm/$tag.json"
  metas+=("$tmpm/$tag.json")
done
printf '%s\n' "${metas[@]}" | xargs -P 6 -I{} bash -c 'run_one "$@"' _ {} | tee /tmp/selftest.$$.out
rm -rf /tmp/selftest-seed-$$-*
bad=$(grep -c "^FAIL\|^SELFTEST-ERROR" /tmp/selftest.$$.out); tot=$(wc -l < /tmp/selftest.$$.out); rm -f /tmp/selftest.$$.out
echo "selftest: $((tot-bad))/$tot mutants behaved as required"
[ "$bad" -eq 0 ]
