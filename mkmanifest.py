#!/usr/bin/env python3
# Regenerates MANIFEST.json from the table below (claims) and properties.jsonl (everything else -> not_applicable).
import json, subprocess
props = [json.loads(l) for l in open('/verif/properties.jsonl')]
TECH = "contract-based deductive verification: contracts on the real functions (/repo/contracts_verif.go), VCs generated from go/ssa of the working tree by govc, discharged by an SMT portfolio (z3 5.1, z3 4.8, cvc5)"
COMMON_NOTE = " Trusted base: go/packages+go/ssa front end, the govc VC generator, the SMT solvers, and the assumed contracts of dependencies listed in evidence.trusted_base."
claimed = {
 "C06": dict(text="Deductive proof, per function and for all inputs (any int64 TTL, either updateExisting mode, any context chain): WithTTL/TTL/SkipRead/WithSkipRead/withoutSkipRead and the four detachedContext methods satisfy their postconditions (minimal-non-zero TTL rule, fresh cell otherwise, frame: no other TTL cell changes; detached context has no deadline/Done/Err and exposes the parent's values).",
             note="Assumed: context.WithValue/Value semantics and the invariant of the package-private context keys." + COMMON_NOTE,
             ref="DESIGN.md 4 C06"),
 "C10": dict(text="Deductive proof for every int64 TTL within +-50 years, every jitter <= 1 or disabled: Trait.TTL returns 0 for Unlimited without ctx TTL, exactly T with jitter disabled, and otherwise within |T|*J/2 + 1ns + |T|*J*2^-50 of T (float64 modelled over the reals with per-operation relative rounding error); expireAt stores 0 iff ttl==0 and otherwise clock+ttl; ts/tsTime/ExpireAt/ExpiredAt denote the same instant.",
             note="Assumed: real-arithmetic model of float64 (no NaN/Inf/subnormal), ghost clock within [0,2^62) ns, rand.Float64 in [0,1). Distribution of the jitter is not decided." + COMMON_NOTE,
             ref="DESIGN.md 4 C10"),
 "C17": dict(text="Deductive proof with interference (thread-modular): lastRun/SkipInterval are havocked at Lock and constrained only by the lock invariant, which is re-proved at Unlock; every access to them and every callback call-out happens while the mutex is held (so accepted calls cannot overlap); a rejected call runs no callback and leaves lastRun; an accepted call runs every callback exactly once in order (loop invariant over the ghost call log) and stores a clock reading >= lastRun+SkipInterval.",
             note="Assumed: monitor rule M1 (lock invariant + lockset => invariant holds whenever the mutex is free), monotone clock, callbacks non-nil and not re-entering the Invalidator." + COMMON_NOTE,
             ref="DESIGN.md 4 C17"),
}
try:
    exec(open('/verif/manifest_claims.py').read())
except FileNotFoundError:
    pass
hooks = subprocess.check_output(['git','-C','/repo','log','--format=%h %s','--reverse']).decode().splitlines()
hook_commits = [l.split()[0] for l in hooks if l.split(' ',1)[1].startswith(('verif:', 'verif contracts:'))]
checks = []
for p in props:
    i = p['id']
    if i in claimed:
        c = claimed[i]
        checks.append({"property_id": i, "quick_cmd": f"./check {i} --tier quick", "thorough_cmd": f"./check {i} --tier thorough",
                       "evidence_file": f"/verif/evidence/{i}.json", "replay_cmd_template": f"./check {i} --replay {{path}}", "engine": "govc",
                       "level_claimed": {"category": "proof", "text": c['text'], "design_ref": c['ref']}, "level_note": c['note'], "technique": TECH})
na_reasons = {}
try:
    na_reasons = json.load(open('/verif/not_applicable.json'))
except FileNotFoundError:
    pass
na = [{"property_id": p['id'], "reason": na_reasons.get(p['id'], "not yet under contract in this build of the machinery (see DESIGN.md section 4 for the planned contracts); nothing is claimed")} for p in props if p['id'] not in claimed]
m = {"version": 1,
 "setup_cmd": "cd /verif/govc && GOFLAGS=-mod=mod GOPROXY=off GOSUMDB=off GOTOOLCHAIN=local go build -o /verif/bin/govc .",
 "hooks": {"guard": "verif", "enable": "-tags verif (hooks: the comment-only contract file /repo/contracts_verif.go and /repo/lemmas_verif.go, four never-called proof harnesses that compose Dump and Restore; nothing else in /repo is guarded)",
           "baseline_off_cmd": "cd /repo && GOFLAGS=-mod=mod go test -json -vet=off -count=1 -timeout 25m ./...",
           "source_commits": hook_commits, "add_only": True},
 "engines": [{"name": "govc", "path": "/verif/govc", "serves_properties": list(claimed.keys()),
              "kind_free_text": "self-written contract verifier for Go: go/packages+go/ssa symbolic execution per path, loop invariants, modular calls, lock invariants with interference, SMT-LIB obligations, replay of counterexamples as in-package tests via go test -overlay"}],
 "checks": checks, "not_applicable": na,
 "notes": "Contracts live in /repo/contracts_verif.go (//go:build verif, comments only). ./check selftest runs the must-fail corpus (selftest mutants and the seeded changes), ./check harmless the corpus of behaviour-preserving edits that must stay green. Assumed contracts of dependencies are listed per run in evidence.trusted_base."}
json.dump(m, open('/verif/MANIFEST.json', 'w'), indent=1)
print("claimed:", list(claimed.keys()))
